package mock

// Demonstration for the finding recorded under C15: momentumStore.GetMomentumsByHash dereferences the (nil, nil) result of
// GetMomentumByHash for an unknown hash. It is reached from the GetBlockHashesMsg handler (chainBridge.GetBlockHashesFromHash)
// on a goroutine without recover: one message with an unknown hash crashes the node.

import (
	"fmt"
	"testing"

	"github.com/zenon-network/go-zenon/common/types"
)

func TestGvcFindingGetMomentumsByHashUnknown(t *testing.T) {
	z := NewMockZenon(t)
	defer z.StopPanic()
	z.InsertMomentumsTo(3)
	defer func() {
		if r := recover(); r != nil {
			fmt.Println("GVC-REPLAY: violated", r)
			t.Fatalf("lookup by an unknown hash panicked: %v", r)
		}
		fmt.Println("GVC-REPLAY: holds")
	}()
	unknown := types.Hash{0xde, 0xad}
	_, _ = z.Chain().GetFrontierMomentumStore().GetMomentumsByHash(unknown, false, 10)
}

package genesis

import (
	"math/big"
	"testing"

	"github.com/zenon-network/go-zenon/common/types"
	"github.com/zenon-network/go-zenon/vm/embedded/definition"
)

// Property C20: "a configuration whose balances do not add up to the declared token supplies and contract holdings is
// rejected". The holdings of the plasma and pillar contracts were compared with the SIGNED sum of the configured entries: an
// entry of +700 and one of -200 "add up" to a balance of 500, while the contract records an entry of 700 (and one of
// 2^256-200: the ABI packs a negative amount modulo 2^256) against the 500 it holds.
// (uses gvcFindingConfig of c20_duplicate_account_and_negative_balance_test.go when both files are overlaid; self-contained otherwise)
func gvcFindingConfigNeg(blocks []*GenesisBlockConfig) *GenesisConfig {
	user := types.ParseAddressPanic("z1qqv2fnc3avjg39dcste4c5lag7l42xyykjf49w")
	token := func(name, symbol string, zts types.ZenonTokenStandard, supply int64) *definition.TokenInfo {
		return &definition.TokenInfo{Owner: types.TokenContract, TokenName: name, TokenSymbol: symbol, TokenDomain: "zenon.network",
			TotalSupply: big.NewInt(supply), MaxSupply: big.NewInt(supply * 10), Decimals: 8, IsMintable: true, IsBurnable: true, IsUtility: true, TokenStandard: zts}
	}
	return &GenesisConfig{
		ChainIdentifier: 100, ExtraData: "gvc-finding", GenesisTimestampSec: 1000000000, SporkAddress: &user,
		PillarConfig:  &PillarContractConfig{Pillars: []*definition.PillarInfo{}, Delegations: []*definition.DelegationInfo{}, LegacyEntries: []*definition.LegacyPillarEntry{}},
		TokenConfig:   &TokenContractConfig{Tokens: []*definition.TokenInfo{token("Zenon Coin", "ZNN", types.ZnnTokenStandard, 1000), token("QuasarCoin", "QSR", types.QsrTokenStandard, 5000)}},
		PlasmaConfig:  &PlasmaContractConfig{Fusions: []*definition.FusionInfo{}},
		SwapConfig:    &SwapContractConfig{Entries: []*definition.SwapAssets{}},
		SporkConfig:   &SporkConfig{Sporks: []*definition.Spork{}},
		GenesisBlocks: &GenesisBlocksConfig{Blocks: blocks},
	}
}

func TestGvcFindingNegativeFusionAmount(t *testing.T) {
	a := types.ParseAddressPanic("z1qqv2fnc3avjg39dcste4c5lag7l42xyykjf49w")
	config := gvcFindingConfigNeg([]*GenesisBlockConfig{
		{Address: a, BalanceList: map[types.ZenonTokenStandard]*big.Int{types.ZnnTokenStandard: big.NewInt(1000), types.QsrTokenStandard: big.NewInt(4500)}},
		{Address: types.PlasmaContract, BalanceList: map[types.ZenonTokenStandard]*big.Int{types.QsrTokenStandard: big.NewInt(500)}},
	})
	config.PlasmaConfig.Fusions = []*definition.FusionInfo{
		{Owner: a, Id: types.HexToHashPanic("0000000000000000000000000000000000000000000000000000000000000001"), Amount: big.NewInt(700), ExpirationHeight: 1, Beneficiary: a},
		{Owner: a, Id: types.HexToHashPanic("0000000000000000000000000000000000000000000000000000000000000002"), Amount: big.NewInt(-200), ExpirationHeight: 1, Beneficiary: a},
	}
	if err := CheckGenesis(config); err == nil {
		t.Errorf("accepted a configuration whose plasma contract holds 500 QSR and records a fusion entry of 700 QSR (made to 'add up' by an entry of -200)")
	}
}

func TestGvcFindingNegativePillarAmount(t *testing.T) {
	a := types.ParseAddressPanic("z1qqv2fnc3avjg39dcste4c5lag7l42xyykjf49w")
	config := gvcFindingConfigNeg([]*GenesisBlockConfig{
		{Address: a, BalanceList: map[types.ZenonTokenStandard]*big.Int{types.ZnnTokenStandard: big.NewInt(500), types.QsrTokenStandard: big.NewInt(5000)}},
		{Address: types.PillarContract, BalanceList: map[types.ZenonTokenStandard]*big.Int{types.ZnnTokenStandard: big.NewInt(500)}},
	})
	config.PillarConfig.Pillars = []*definition.PillarInfo{
		{Name: "p1", BlockProducingAddress: a, RewardWithdrawAddress: a, StakeAddress: a, Amount: big.NewInt(700), PillarType: 1},
		{Name: "p2", BlockProducingAddress: a, RewardWithdrawAddress: a, StakeAddress: a, Amount: big.NewInt(-200), PillarType: 1},
	}
	if err := CheckGenesis(config); err == nil {
		t.Errorf("accepted a configuration whose pillar contract holds 500 ZNN and records a pillar stake of 700 ZNN (made to 'add up' by a pillar of -200)")
	}
}

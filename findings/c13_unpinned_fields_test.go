package mock

// Demonstration for the findings recorded under C13: fields of an account block that are neither covered by the block hash
// nor re-derived or compared on the apply path are stored exactly as delivered, so two nodes can hold different bytes for the
// same accepted block hash.
//   (a) user block: ChangesHash (anyone relaying the block can alter it: the signature covers only Hash)
//   (b) contract receive block: BasePlasma / TotalPlasma (applyBlock compares ChangesHash and Hash of the regenerated block only)

import (
	"bytes"
	"fmt"
	"math/big"
	"testing"

	g "github.com/zenon-network/go-zenon/chain/genesis/mock"
	"github.com/zenon-network/go-zenon/chain/nom"
	"github.com/zenon-network/go-zenon/common/types"
	"github.com/zenon-network/go-zenon/vm"
	"github.com/zenon-network/go-zenon/vm/embedded/definition"
)

func TestGvcFindingUnpinnedUserChangesHash(t *testing.T) {
	z := NewMockZenon(t)
	defer z.StopPanic()
	z.InsertMomentumsTo(5)
	sup := vm.NewSupervisor(z.Chain(), z.Consensus())
	tx, err := sup.GenerateFromTemplate(&nom.AccountBlock{BlockType: nom.BlockTypeUserSend, Address: g.User1.Address, ToAddress: g.User2.Address,
		TokenStandard: types.ZnnTokenStandard, Amount: big.NewInt(7)}, getSignFunc(g.User1.Address))
	if err != nil {
		t.Fatal(err)
	}
	original := tx.Block
	variant := nom.DeProtoAccountBlock(original.Proto())
	variant.ChangesHash = types.NewHash([]byte("anything a relayer likes"))
	tx2, err := sup.ApplyBlock(variant) // the path a block received from a peer or over RPC takes
	fmt.Printf("variant accepted: %v; same hash: %v\n", err == nil, err == nil && tx2.Block.Hash == original.Hash)
	if err != nil {
		fmt.Println("GVC-REPLAY: holds")
		return
	}
	a, _ := original.Serialize()
	b, _ := tx2.Block.Serialize()
	if tx2.Block.Hash == original.Hash && !bytes.Equal(a, b) {
		fmt.Println("GVC-REPLAY: violated")
		t.Fatalf("two accepted user blocks with hash %v have different stored bytes (ChangesHash %v vs %v)", original.Hash, original.ChangesHash, tx2.Block.ChangesHash)
	}
	fmt.Println("GVC-REPLAY: holds")
}

func TestGvcFindingUnpinnedContractPlasmaFields(t *testing.T) {
	z := NewMockZenon(t)
	defer z.StopPanic()
	z.InsertMomentumsTo(5)
	send := z.InsertSendBlock(&nom.AccountBlock{Address: g.User1.Address, ToAddress: types.PlasmaContract, TokenStandard: types.QsrTokenStandard,
		Amount: big.NewInt(10 * g.Zexp), Data: definition.ABIPlasma.PackMethodPanic(definition.FuseMethodName, g.User1.Address)}, nil, SkipVmChanges)
	z.InsertNewMomentum() // confirms the send; the contract has not received it yet
	_ = send
	sup := vm.NewSupervisor(z.Chain(), z.Consensus())
	// the contract receive the producing pillar generated and put into its pool (not yet confirmed)
	original, err := z.Chain().GetFrontierAccountStore(types.PlasmaContract).Frontier()
	if err != nil || original == nil || original.BlockType != nom.BlockTypeContractReceive {
		t.Fatalf("no contract receive at the plasma contract's frontier: %v %v", original, err)
	}
	variant := nom.DeProtoAccountBlock(original.Proto())
	variant.BasePlasma, variant.TotalPlasma = 7, 9
	tx2, err := sup.ApplyBlock(variant) // the path a contract block received from a peer takes
	fmt.Printf("variant accepted: %v; same hash: %v\n", err == nil, err == nil && tx2.Block.Hash == original.Hash)
	if err != nil {
		fmt.Println("GVC-REPLAY: holds")
		return
	}
	a, _ := original.Serialize()
	b, _ := tx2.Block.Serialize()
	if tx2.Block.Hash == original.Hash && !bytes.Equal(a, b) {
		fmt.Println("GVC-REPLAY: violated")
		t.Fatalf("two accepted contract receive blocks with hash %v have different stored bytes (BasePlasma/TotalPlasma %d/%d vs %d/%d)", original.Hash, original.BasePlasma, original.TotalPlasma, tx2.Block.BasePlasma, tx2.Block.TotalPlasma)
	}
	fmt.Println("GVC-REPLAY: holds")
}

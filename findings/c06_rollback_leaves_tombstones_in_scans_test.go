package mock

import (
	"fmt"
	"testing"

	g "github.com/zenon-network/go-zenon/chain/genesis/mock"
	"github.com/zenon-network/go-zenon/chain/nom"
	"github.com/zenon-network/go-zenon/common"
	"github.com/zenon-network/go-zenon/common/types"
	"github.com/zenon-network/go-zenon/vm/embedded/definition"
)

// Property C06: after a switch of branches the state is identical to that of a node that only ever saw the adopted branch.
//
// Scenario: a spork is created on a branch that is then abandoned (RollbackTo below the momentum that confirmed it). A node
// that only ever saw the adopted branch has no spork: listing the defined sporks gives an empty list. The node that saw and
// rolled back the abandoned branch must give the same answer, and must keep accepting momentums.
func TestGvcFindingRollbackLeavesTombstonesInScans(t *testing.T) {
	z := NewMockZenon(t)
	defer z.StopPanic()

	z.InsertMomentumsTo(5)
	forkPoint, err := z.Chain().GetFrontierMomentumStore().GetFrontierMomentum()
	common.FailIfErr(t, err)
	before, err := z.Chain().GetFrontierMomentumStore().GetAllDefinedSporks()
	common.FailIfErr(t, err)

	z.InsertSendBlock(&nom.AccountBlock{
		Address:   g.Spork.Address,
		ToAddress: types.SporkContract,
		Data:      definition.ABISpork.PackMethodPanic(definition.SporkCreateMethodName, "spork-x", "created on the abandoned branch"),
	}, nil, SkipVmChanges)
	z.InsertNewMomentum()
	z.InsertNewMomentum()
	created, err := z.Chain().GetFrontierMomentumStore().GetAllDefinedSporks()
	common.FailIfErr(t, err)
	if len(created) != len(before)+1 {
		t.Fatalf("unexpected setup: %v sporks after the create call, %v before", len(created), len(before))
	}

	insert := z.Chain().AcquireInsert("gvc finding")
	err = z.Chain().RollbackTo(insert, forkPoint.Identifier())
	insert.Unlock()
	common.FailIfErr(t, err)

	func() {
		defer func() {
			if r := recover(); r != nil {
				t.Fatalf("listing the defined sporks after the rollback panics: %v", fmt.Sprint(r))
			}
		}()
		after, err := z.Chain().GetFrontierMomentumStore().GetAllDefinedSporks()
		common.FailIfErr(t, err)
		if len(after) != len(before) {
			t.Fatalf("%v sporks after the rollback, %v on a node that only saw the adopted branch", len(after), len(before))
		}
	}()
}

package mock

import (
	"math/big"
	"testing"

	g "github.com/zenon-network/go-zenon/chain/genesis/mock"
	"github.com/zenon-network/go-zenon/chain/nom"
	"github.com/zenon-network/go-zenon/common"
	"github.com/zenon-network/go-zenon/common/types"
)

// Property C04: "every send block is received at most once, and only by the account it was addressed to".
//
// The verifier refuses a receive block of an account the send was not addressed to only when the node's frontier is at or
// above verifier.ReceiverMismatchEnforcementHeight (10 109 240, an activation height chosen for the main network). On every
// chain below that height - any new network, any test network - a send to User2 can be received by User3, and then again by
// User2: the amount is credited twice.
func TestGvcFindingReceiverMismatchBelowTheGate(t *testing.T) {
	z := NewMockZenon(t)
	defer z.StopPanic()

	amount := big.NewInt(10 * g.Zexp)
	send := z.InsertSendBlock(&nom.AccountBlock{
		Address:       g.User1.Address,
		ToAddress:     g.User2.Address,
		TokenStandard: types.ZnnTokenStandard,
		Amount:        amount,
	}, nil, SkipVmChanges)
	z.InsertNewMomentum()

	before3, err := z.Chain().GetFrontierAccountStore(g.User3.Address).GetBalance(types.ZnnTokenStandard)
	common.FailIfErr(t, err)
	before2, err := z.Chain().GetFrontierAccountStore(g.User2.Address).GetBalance(types.ZnnTokenStandard)
	common.FailIfErr(t, err)

	// User3 - NOT the addressee - receives the send
	z.InsertReceiveBlock(send.Header(), &nom.AccountBlock{Address: g.User3.Address}, nil, SkipVmChanges)
	z.InsertNewMomentum()
	// and the addressee receives it as well
	z.InsertReceiveBlock(send.Header(), &nom.AccountBlock{Address: g.User2.Address}, nil, SkipVmChanges)
	z.InsertNewMomentum()

	after3, err := z.Chain().GetFrontierAccountStore(g.User3.Address).GetBalance(types.ZnnTokenStandard)
	common.FailIfErr(t, err)
	after2, err := z.Chain().GetFrontierAccountStore(g.User2.Address).GetBalance(types.ZnnTokenStandard)
	common.FailIfErr(t, err)
	if after3.Cmp(before3) != 0 {
		t.Errorf("User3 received %v ZNN-units from a send addressed to User2", new(big.Int).Sub(after3, before3))
	}
	if new(big.Int).Sub(after2, before2).Cmp(amount) != 0 {
		t.Errorf("User2 was credited %v, the send carried %v", new(big.Int).Sub(after2, before2), amount)
	}
}

package genesis

import (
	"math/big"
	"testing"

	"github.com/zenon-network/go-zenon/common/types"
	"github.com/zenon-network/go-zenon/vm/embedded/definition"
)

// Property C20: "a configuration whose balances do not add up to the declared token supplies and contract holdings is
// rejected".
//
// The configuration below registers a pillar with 15000 units of collateral, but the pillar contract holds nothing: it has no
// genesis block at all (the 15000 are on a user account instead, so the token supplies still add up). checkAccountBalance
// only looks at the genesis blocks OF the contract; with none, the holdings check passes vacuously.
func TestGvcFindingContractHoldingsCheckedVacuously(t *testing.T) {
	user := types.ParseAddressPanic("z1qqv2fnc3avjg39dcste4c5lag7l42xyykjf49w")
	producer := types.ParseAddressPanic("z1qzal6c5s9rjnnxd2z7dvdhjxpmmj4fmw56a0mz")
	token := func(name, symbol string, zts types.ZenonTokenStandard, supply int64) *definition.TokenInfo {
		return &definition.TokenInfo{Owner: types.TokenContract, TokenName: name, TokenSymbol: symbol, TokenDomain: "zenon.network",
			TotalSupply: big.NewInt(supply), MaxSupply: big.NewInt(supply * 10), Decimals: 8, IsMintable: true, IsBurnable: true, IsUtility: true, TokenStandard: zts}
	}
	config := &GenesisConfig{
		ChainIdentifier:     100,
		ExtraData:           "gvc-finding",
		GenesisTimestampSec: 1000000000,
		SporkAddress:        &user,
		PillarConfig: &PillarContractConfig{
			Pillars: []*definition.PillarInfo{{
				Name: "pillar-without-collateral", BlockProducingAddress: producer, StakeAddress: user, RewardWithdrawAddress: user,
				Amount: big.NewInt(15000), RegistrationTime: 1000000000, GiveBlockRewardPercentage: 0, GiveDelegateRewardPercentage: 100, PillarType: 1,
			}},
			Delegations:   []*definition.DelegationInfo{},
			LegacyEntries: []*definition.LegacyPillarEntry{},
		},
		TokenConfig:  &TokenContractConfig{Tokens: []*definition.TokenInfo{token("Zenon Coin", "ZNN", types.ZnnTokenStandard, 15000), token("QuasarCoin", "QSR", types.QsrTokenStandard, 5000)}},
		PlasmaConfig: &PlasmaContractConfig{Fusions: []*definition.FusionInfo{}},
		SwapConfig:   &SwapContractConfig{Entries: []*definition.SwapAssets{}},
		SporkConfig:  &SporkConfig{Sporks: []*definition.Spork{}},
		GenesisBlocks: &GenesisBlocksConfig{Blocks: []*GenesisBlockConfig{{
			Address: user,
			BalanceList: map[types.ZenonTokenStandard]*big.Int{
				types.ZnnTokenStandard: big.NewInt(15000), // the collateral sits here, not in the pillar contract
				types.QsrTokenStandard: big.NewInt(5000),
			},
		}}},
	}
	if err := CheckGenesis(config); err == nil {
		t.Fatalf("accepted: the pillar contract owes 15000 units of collateral and holds nothing (it has no genesis block)")
	}
}

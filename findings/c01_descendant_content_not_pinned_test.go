package tests

import (
	"math/big"
	"testing"

	"github.com/zenon-network/go-zenon/chain"
	g "github.com/zenon-network/go-zenon/chain/genesis/mock"
	"github.com/zenon-network/go-zenon/chain/nom"
	"github.com/zenon-network/go-zenon/common"
	"github.com/zenon-network/go-zenon/common/types"
	"github.com/zenon-network/go-zenon/vm"
	"github.com/zenon-network/go-zenon/vm/embedded/definition"
	"github.com/zenon-network/go-zenon/zenon/mock"
)

// gvcFindingSupplyGap walks the whole ledger (every momentum, every account-block header in it) and returns
//
//	recordedTotalSupply - (sum of balances over all accounts + amounts of all send blocks not yet received)
//
// for the given token. For a correct node this is always zero.
func gvcFindingSupplyGap(t *testing.T, z mock.MockZenon, zts types.ZenonTokenStandard) *big.Int {
	store := z.Chain().GetFrontierMomentumStore()
	frontier := store.Identifier().Height

	addresses := make(map[types.Address]struct{})
	seen := make(map[types.Hash]struct{})
	inFlight := big.NewInt(0)

	for h := uint64(1); h <= frontier; h += 1 {
		momentum, err := store.GetMomentumByHeight(h)
		common.FailIfErr(t, err)
		for _, header := range momentum.Content {
			block, err := store.GetAccountBlock(*header)
			common.FailIfErr(t, err)
			if block == nil {
				t.Fatalf("can't find block for header %v", header)
			}
			if _, ok := seen[block.Hash]; ok {
				continue
			}
			seen[block.Hash] = struct{}{}

			addresses[block.Address] = struct{}{}
			if !block.IsSendBlock() {
				continue
			}
			addresses[block.ToAddress] = struct{}{}
			if block.TokenStandard != zts || block.Amount == nil {
				continue
			}
			receive, err := store.GetBlockWhichReceives(block.Hash)
			common.FailIfErr(t, err)
			if receive == nil {
				inFlight.Add(inFlight, block.Amount)
			}
		}
	}

	balances := big.NewInt(0)
	for address := range addresses {
		balance, err := store.GetAccountStore(address).GetBalance(zts)
		common.FailIfErr(t, err)
		if balance.Sign() < 0 {
			t.Fatalf("negative balance for %v", address)
		}
		balances.Add(balances, balance)
	}

	token, err := store.GetTokenInfoByTs(zts)
	common.FailIfErr(t, err)
	if token.TotalSupply.Cmp(token.MaxSupply) > 0 {
		t.Fatalf("total supply %v of %v is above max supply %v", token.TotalSupply, zts, token.MaxSupply)
	}

	gap := new(big.Int).Sub(token.TotalSupply, balances)
	gap.Sub(gap, inFlight)
	return gap
}

func gvcFindingExpectConserved(t *testing.T, z mock.MockZenon, when string) {
	for _, zts := range []types.ZenonTokenStandard{types.ZnnTokenStandard, types.QsrTokenStandard} {
		if gap := gvcFindingSupplyGap(t, z, zts); gap.Sign() != 0 {
			t.Errorf("%v: supply of %v is not conserved: recorded total supply - (balances + in-flight) = %v", when, zts, gap)
		}
	}
}

// A node receives account-blocks of embedded contracts (contract-receive blocks, with their descendant send blocks)
// from its peers - protocol.chainBridge hands every such block to vm.Supervisor.ApplyBlock and, if it is accepted,
// inserts the returned transaction in the chain. The node must only accept the one block it would have generated
// itself; anything else would detach the stored send blocks from the balance changes the node applies.
//
// Scenario: User1 deposits 100 QSR in the pillar contract and withdraws them. A peer delivers a contract-receive
// block for the withdraw call which is well-formed (all hashes are consistent, changes-hash is the expected one),
// but whose descendant send block carries 1000 QSR instead of 100 QSR.
func TestGvcFindingDescendantContentNotPinned(t *testing.T) {
	z := mock.NewMockZenon(t)
	defer z.StopPanic()
	supervisor := vm.NewSupervisor(z.Chain(), z.Consensus())

	gvcFindingExpectConserved(t, z, "genesis")

	z.InsertSendBlock(&nom.AccountBlock{
		Address:       g.User1.Address,
		ToAddress:     types.PillarContract,
		Data:          definition.ABIPillars.PackMethodPanic(definition.DepositQsrMethodName),
		TokenStandard: types.QsrTokenStandard,
		Amount:        big.NewInt(100 * g.Zexp),
	}, nil, mock.SkipVmChanges)
	insertMomentums(z, 3)
	gvcFindingExpectConserved(t, z, "after DepositQsr")

	user1Before, err := z.Chain().GetFrontierAccountStore(g.User1.Address).GetBalance(types.QsrTokenStandard)
	common.FailIfErr(t, err)

	z.InsertSendBlock(&nom.AccountBlock{
		Address:   g.User1.Address,
		ToAddress: types.PillarContract,
		Data:      definition.ABIPillars.PackMethodPanic(definition.WithdrawQsrMethodName),
	}, nil, mock.SkipVmChanges)
	// confirms the WithdrawQsr send block; the producer leaves its own (honest) contract-receive in the unconfirmed pool
	z.InsertNewMomentum()

	honest, err := z.Chain().GetFrontierAccountStore(types.PillarContract).Frontier()
	common.FailIfErr(t, err)
	if honest.BlockType != nom.BlockTypeContractReceive || len(honest.DescendantBlocks) != 1 {
		t.Fatalf("unexpected frontier of the pillar contract %+v", honest)
	}
	common.ExpectAmount(t, honest.DescendantBlocks[0].Amount, big.NewInt(100*g.Zexp))

	// forge: same block, same hashes everywhere - only the CONTENT of the descendant send block differs (1000 QSR instead
	// of 100 QSR). The descendant's Hash field keeps the honest value, so the parent's hash (which covers the descendants'
	// Hash fields, not their contents) is unchanged as well.
	forged := honest.Copy()
	forged.DescendantBlocks[0].Amount = big.NewInt(1000 * g.Zexp)
	if forged.Hash != honest.Hash || forged.ComputeHash() != honest.Hash {
		t.Fatalf("the forged block is supposed to carry the honest hash")
	}
	if forged.DescendantBlocks[0].ComputeHash() == forged.DescendantBlocks[0].Hash {
		t.Fatalf("the forged descendant is supposed to have a stale hash")
	}

	// The mock node is also the momentum producer, so it already holds its own contract-receive in the unconfirmed pool.
	// An ordinary node does not: it learns about the block from its peers. Drop the unconfirmed pool to be in that state
	// (the producer generates the honest block again when it produces the next momentum, if nothing took its place).
	z.Chain().(chain.MomentumEventListener).DeleteMomentum(nil)

	// what protocol.chainBridge.AddAccountBlocks does with a block delivered by a peer
	transaction, err := supervisor.ApplyBlock(forged)
	if err == nil {
		t.Errorf("node accepted a contract-receive block %v whose descendant send block carries 1000 QSR although its hash field is the hash of a 100 QSR block", forged.Hash)
		insert := z.Chain().AcquireInsert("seed-demo insert forged contract-receive")
		common.FailIfErr(t, z.Chain().AddAccountBlockTransaction(insert, transaction))
		insert.Unlock()
	}

	// cement whatever is in the pool, let User1 receive what was sent to him
	insertMomentums(z, 2)
	autoreceive(t, z, g.User1.Address)
	insertMomentums(z, 2)

	user1After, err := z.Chain().GetFrontierAccountStore(g.User1.Address).GetBalance(types.QsrTokenStandard)
	common.FailIfErr(t, err)
	gvcFindingExpectConserved(t, z, "after WithdrawQsr")
	common.ExpectAmount(t, new(big.Int).Sub(user1After, user1Before), big.NewInt(100*g.Zexp))
}

package mock

// Demonstration for the latent issue recorded under C09 (not claimed, see checks/C09.json): vm.generateEmbeddedReceive takes
// the ErrContractMethodNotFound path BEFORE vm.context.Save(), and rollbackEmbedded then calls vm.context.Reset(), which
// installs the (nil) snapshot as the account store; the following AddBalance dereferences it. The path is reachable only if
// a spork removes a method between the send's and the receive's acknowledged momentum (today's tables only grow), so it is
// recorded as latent and the corresponding obligations are not claimed.

import (
	"fmt"
	"math/big"
	"testing"

	"github.com/zenon-network/go-zenon/common/types"
	"github.com/zenon-network/go-zenon/vm/vm_context"
)

func TestGvcLatentResetWithoutSave(t *testing.T) {
	z := NewMockZenon(t)
	defer z.StopPanic()
	ms := z.Chain().GetFrontierMomentumStore()
	ctx := vm_context.NewAccountContext(ms, z.Chain().GetFrontierAccountStore(types.PlasmaContract), z.Consensus().FixedPillarReader(ms.Identifier()))
	defer func() {
		if r := recover(); r != nil {
			fmt.Println("GVC-REPLAY: violated", r)
			t.Fatalf("Reset() without Save() left the context without an account store: %v", r)
		}
		fmt.Println("GVC-REPLAY: holds")
	}()
	ctx.Reset() // what rollbackEmbedded does on the method-not-found path, where Save() has not been called
	ctx.AddBalance(&types.ZnnTokenStandard, big.NewInt(1))
}

package wallet

import (
	"fmt"
	"testing"
)

// Property C19: a key file "fails to decrypt ... after any change to its ciphertext, nonce or salt".
// A nonce that was shortened (or lengthened) by one byte makes Decrypt PANIC inside cipher.AEAD.Open instead of failing with an
// error: whoever unlocks such a file (the node's wallet manager, on behalf of an RPC caller) goes down with it.
func TestGvcFindingDecryptPanicsOnTamperedNonceLength(t *testing.T) {
	entropy := make([]byte, 32)
	for i := range entropy {
		entropy[i] = byte(i)
	}
	ks, err := keyStoreFromEntropy(entropy)
	if err != nil {
		t.Fatal(err)
	}
	kf, err := ks.Encrypt("password")
	if err != nil {
		t.Fatal(err)
	}
	kf.Crypto.AesNonce = kf.Crypto.AesNonce[:len(kf.Crypto.AesNonce)-1]
	defer func() {
		if r := recover(); r != nil {
			t.Fatalf("Decrypt of a key file whose nonce lost a byte panics: %v", fmt.Sprint(r))
		}
	}()
	if _, err := kf.Decrypt("password"); err == nil {
		t.Fatalf("a key file with a changed nonce decrypted")
	}
}

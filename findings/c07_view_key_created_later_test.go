package db

// Demonstration for the C07 finding: a view opened at commit X must show the state as of X. For a key created AFTER X the
// rollback overlay stores the tombstone as []byte{0}, which enableDeleteDB decodes as "present with an empty value"
// (the tombstone encoding of the store is the EMPTY value), so Get returns ([], nil) and Has returns true on the historical
// view. Second part: ordered scans drop keys whose value is legitimately empty (the filter uses len(val) > 1).

import (
	"fmt"
	"os"
	"testing"

	"github.com/syndtr/goleveldb/leveldb"
	"github.com/zenon-network/go-zenon/common"
	"github.com/zenon-network/go-zenon/common/types"
)

type gvcCommit struct {
	id, prev types.HashHeight
}

func (c *gvcCommit) Identifier() types.HashHeight { return c.id }
func (c *gvcCommit) Previous() types.HashHeight   { return c.prev }
func (c *gvcCommit) Serialize() ([]byte, error)   { return []byte{1, 2, 3}, nil }

type gvcTx struct {
	c *gvcCommit
	p Patch
}

func (t *gvcTx) GetCommits() []Commit { return []Commit{t.c} }
func (t *gvcTx) StealChanges() Patch  { return t.p }

func gvcHH(h byte, height uint64) types.HashHeight {
	return types.HashHeight{Hash: types.Hash{h}, Height: height}
}

func TestGvcFindingViewKeyCreatedLater(t *testing.T) {
	dir, _ := os.MkdirTemp("", "gvc-c07")
	defer os.RemoveAll(dir)
	m := NewLevelDBManager(dir)
	defer m.Stop()
	p1 := NewPatch()
	p1.Put([]byte("a"), []byte("1"))
	p1.Put([]byte("e"), []byte{}) // a legitimately empty value
	common.DealWithErr(m.Add(&gvcTx{&gvcCommit{gvcHH(1, 1), types.ZeroHashHeight}, p1}))
	p2 := NewPatch()
	p2.Put([]byte("b"), []byte("2")) // created after commit 1
	common.DealWithErr(m.Add(&gvcTx{&gvcCommit{gvcHH(2, 2), gvcHH(1, 1)}, p2}))

	view := m.Get(gvcHH(1, 1))
	bad := false
	if v, err := view.Get([]byte("b")); err != leveldb.ErrNotFound {
		fmt.Printf("view@1.Get(b) = (%v, %v), want ErrNotFound\n", v, err)
		bad = true
	}
	if ok, _ := view.Has([]byte("b")); ok {
		fmt.Println("view@1.Has(b) = true, want false")
		bad = true
	}
	if bad {
		fmt.Println("GVC-REPLAY: violated")
		t.Fatalf("historical view shows a key created after its commit")
	}
	fmt.Println("GVC-REPLAY: holds")
}

package protocol

// Demonstration for the finding recorded under C15: the GetBlockHashesFromNumberMsg handler clamps request.Amount to
// MaxHashFetch (512) but, when Number+Amount-1 lies beyond the frontier, recomputes Amount as frontier.Height-Number+1
// without clamping again: one request makes the node read and send the hashes of (almost) its whole chain.
// The chain side is a fake chainManager that serves `amount` hashes for a chain of 100000 momentums; the handler code is real.

import (
	"fmt"
	"testing"

	"github.com/zenon-network/go-zenon/chain/nom"
	"github.com/zenon-network/go-zenon/common/types"
	"github.com/zenon-network/go-zenon/p2p"
	"github.com/zenon-network/go-zenon/p2p/discover"
)

type gvcFakeChain struct{ height uint64 }

func (f *gvcFakeChain) HasBlock(hash types.Hash) bool { return false }
func (f *gvcFakeChain) GetBlockHashesFromHash(hash types.Hash, amount uint64) ([]types.Hash, error) {
	if amount > f.height {
		amount = f.height
	}
	return make([]types.Hash, amount), nil
}
func (f *gvcFakeChain) GetBlock(hash types.Hash) *nom.DetailedMomentum { return nil }
func (f *gvcFakeChain) GetBlockByNumber(num uint64) (*nom.Momentum, error) {
	if num == 0 || num > f.height {
		return nil, nil
	}
	return &nom.Momentum{Height: num}, nil
}
func (f *gvcFakeChain) CurrentBlock() *nom.Momentum { return &nom.Momentum{Height: f.height} }
func (f *gvcFakeChain) Status() (uint64, types.Hash, types.Hash) {
	return f.height, types.Hash{}, types.Hash{}
}
func (f *gvcFakeChain) InsertChain(chain []*nom.DetailedMomentum) (int, error) { return 0, nil }

func TestGvcFindingHashesFromNumberUncapped(t *testing.T) {
	pm := &ProtocolManager{chainman: &gvcFakeChain{height: 100000}, peers: newPeerSet()}
	app, net := p2p.MsgPipe()
	defer app.Close()
	p := newPeer(1, 1, p2p.NewPeer(discover.NodeID{}, "gvc", nil), net)
	go func() {
		// Amount=0: Number+Amount-1 wraps below Number, nothing is found there, and Amount is recomputed from the frontier
		p2p.Send(app, GetBlockHashesFromNumberMsg, getBlockHashesFromNumberData{Number: 0, Amount: 0})
	}()
	done := make(chan error, 1)
	go func() { done <- pm.handleMsg(p) }()
	msg, err := app.ReadMsg()
	if err != nil {
		t.Fatal(err)
	}
	var hashes []types.Hash
	if err := msg.Decode(&hashes); err != nil {
		t.Fatal(err)
	}
	<-done
	fmt.Printf("reply carries %d hashes (protocol limit 512)\n", len(hashes))
	if len(hashes) > 512 {
		fmt.Println("GVC-REPLAY: violated")
		t.Fatalf("reply exceeds MaxHashFetch: %d hashes", len(hashes))
	}
	fmt.Println("GVC-REPLAY: holds")
}

package db

// Demonstration for the C08 finding: ldbManager.Add streams a commit into LevelDB key by key (one Put per key, no batch). If the
// process dies between two of those writes the store is neither in the state before nor in the state after the commit, and
// nothing repairs it on restart. The "crash" is a Patch whose Replay panics after the first data key has been written; the
// manager is then reopened from the same directory.

import (
	"encoding/hex"
	"fmt"
	"strings"
	"testing"

	"github.com/zenon-network/go-zenon/common/types"
)

type gvcCrash struct{}

type gvcCrashingReplayer struct {
	inner PatchReplayer
	n     int
}

func (r *gvcCrashingReplayer) Put(key []byte, value []byte) {
	r.inner.Put(key, value)
	r.n++
	if r.n == 1 {
		panic(gvcCrash{})
	}
}
func (r *gvcCrashingReplayer) Delete(key []byte) { r.inner.Delete(key) }

type gvcCrashingPatch struct{ Patch }

func (p *gvcCrashingPatch) Replay(pr PatchReplayer) error {
	if _, ok := pr.(*patchApplier); !ok {
		return p.Patch.Replay(pr)
	}
	return p.Patch.Replay(&gvcCrashingReplayer{inner: pr})
}

func gvcRaw(m Manager) string {
	it := m.(*ldbManager).ldb.NewIterator(nil, nil)
	defer it.Release()
	var sb strings.Builder
	for it.Next() {
		sb.WriteString(fmt.Sprintf("%v=%v\n", hex.EncodeToString(it.Key()), hex.EncodeToString(it.Value())))
	}
	return sb.String()
}

func gvcTx(frontier DB, name string, kv map[string]string) *mockTransaction {
	id := GetFrontierIdentifier(frontier)
	p := NewPatch()
	for _, k := range []string{"a", "b", "c"} {
		if v, ok := kv[k]; ok {
			p.Put([]byte(k), []byte(v))
		}
	}
	c := &mockCommit{prevHash: id.Hash, height: id.Height + 1, changesHash: PatchHash(p)}
	c.hash = types.NewHash([]byte(name))
	return &mockTransaction{patch: p, commit: c}
}

func TestGvcFindingPartialCommit(t *testing.T) {
	dir := t.TempDir()
	// reference: the state after the commit, on a node that does not crash
	ref := NewLevelDBManager(t.TempDir())
	if err := ref.Add(gvcTx(ref.Frontier(), "m1", map[string]string{"a": "1", "b": "1", "c": "1"})); err != nil {
		t.Fatal(err)
	}
	m := NewLevelDBManager(dir)
	if err := m.Add(gvcTx(m.Frontier(), "m1", map[string]string{"a": "1", "b": "1", "c": "1"})); err != nil {
		t.Fatal(err)
	}
	before := gvcRaw(m)
	tx := gvcTx(m.Frontier(), "m2", map[string]string{"a": "2", "b": "2", "c": "2"})
	if err := ref.Add(gvcTx(ref.Frontier(), "m2", map[string]string{"a": "2", "b": "2", "c": "2"})); err != nil {
		t.Fatal(err)
	}
	after := gvcRaw(ref)
	tx.patch = &gvcCrashingPatch{tx.patch}
	func() {
		defer func() {
			if r := recover(); r != nil {
				if _, ok := r.(gvcCrash); !ok {
					panic(r)
				}
			}
		}()
		_ = m.Add(tx)
	}()
	m.Stop()
	m = NewLevelDBManager(dir) // restart
	got := gvcRaw(m)
	fmt.Printf("after restart: equals before=%v equals after=%v frontier height=%d\n", got == before, got == after, GetFrontierIdentifier(m.Frontier()).Height)
	if got != before && got != after {
		fmt.Println("GVC-REPLAY: violated")
		t.Fatalf("store after a crash inside Add is neither the state before nor the state after the commit:\n%s", got)
	}
	fmt.Println("GVC-REPLAY: holds")
}

package mock

import (
	"math/big"
	"testing"
	"time"

	g "github.com/zenon-network/go-zenon/chain/genesis/mock"
	"github.com/zenon-network/go-zenon/chain/nom"
	"github.com/zenon-network/go-zenon/common"
	"github.com/zenon-network/go-zenon/common/types"
	"github.com/zenon-network/go-zenon/vm/embedded/definition"
)

// Property C14: "after each momentum the pool holds exactly the previously pooled blocks that were not confirmed by it and
// still link".
//
// Scenario: User1 deposits QSR in the pillar contract and withdraws it. The withdraw call's contract-receive block carries a
// descendant send block (the payout); the producing pillar generates it into the unconfirmed pool. Then a momentum arrives
// that does NOT contain it (an empty momentum of the elected pillar - what any node sees when another pillar produced the
// slot before the block reached it). The pooled contract batch is not confirmed by that momentum and still links to the
// contract's confirmed frontier, so it must still be in the pool afterwards.
func TestGvcFindingRebuildDropsPendingContractBatch(t *testing.T) {
	z := NewMockZenon(t)
	defer z.StopPanic()
	mz := z.(*mockZenon)

	z.InsertSendBlock(&nom.AccountBlock{
		Address:       g.User1.Address,
		ToAddress:     types.PillarContract,
		Data:          definition.ABIPillars.PackMethodPanic(definition.DepositQsrMethodName),
		TokenStandard: types.QsrTokenStandard,
		Amount:        big.NewInt(100 * g.Zexp),
	}, nil, SkipVmChanges)
	z.InsertNewMomentum()
	z.InsertNewMomentum()
	z.InsertNewMomentum()

	z.InsertSendBlock(&nom.AccountBlock{
		Address:   g.User1.Address,
		ToAddress: types.PillarContract,
		Data:      definition.ABIPillars.PackMethodPanic(definition.WithdrawQsrMethodName),
	}, nil, SkipVmChanges)
	// confirms the WithdrawQsr send; afterwards the producer leaves the contract-receive (with its descendant) in the pool
	z.InsertNewMomentum()

	pending := z.Chain().GetUncommittedAccountBlocksByAddress(types.PillarContract)
	if len(pending) != 2 {
		t.Fatalf("unexpected setup: %v pending blocks of the pillar contract, wanted the descendant send and the receive", len(pending))
	}
	receive := pending[len(pending)-1]
	if receive.BlockType != nom.BlockTypeContractReceive || len(receive.DescendantBlocks) != 1 {
		t.Fatalf("unexpected setup: last pending block is %+v", receive)
	}
	confirmedFrontier, err := z.Chain().GetFrontierMomentumStore().GetAccountStore(types.PillarContract).Frontier()
	common.FailIfErr(t, err)
	if pending[0].PreviousHash != confirmedFrontier.Hash {
		t.Fatalf("unexpected setup: the pending batch does not link to the confirmed frontier")
	}

	// an EMPTY momentum for the next slot, produced and signed by the elected pillar
	frontier, err := z.Chain().GetFrontierMomentumStore().GetFrontierMomentum()
	common.FailIfErr(t, err)
	ts := frontier.Timestamp.Add(10 * time.Second)
	elected, err := z.Consensus().GetMomentumProducer(ts)
	common.FailIfErr(t, err)
	template := &nom.Momentum{
		Version:         1,
		ChainIdentifier: z.Chain().ChainIdentifier(),
		PreviousHash:    frontier.Hash,
		Height:          frontier.Height + 1,
		TimestampUnix:   uint64(ts.Unix()),
		Content:         nom.NewMomentumContent(nil),
	}
	template.EnsureCache()
	transaction, err := mz.supervisor.GenerateMomentum(&nom.DetailedMomentum{Momentum: template, AccountBlocks: []*nom.AccountBlock{}}, getSignFunc(*elected))
	common.FailIfErr(t, err)
	insert := z.Chain().AcquireInsert("gvc finding")
	err = z.Chain().AddMomentumTransaction(insert, transaction)
	insert.Unlock()
	common.FailIfErr(t, err)

	after := z.Chain().GetUncommittedAccountBlocksByAddress(types.PillarContract)
	if len(after) != len(pending) {
		t.Fatalf("the pool held %v unconfirmed blocks of the pillar contract before an empty momentum was inserted and holds %v after it: the pending contract batch was dropped", len(pending), len(after))
	}
	for i := range after {
		if after[i].Hash != pending[i].Hash {
			t.Fatalf("pending block %v changed", i)
		}
	}

	// and the re-applied batch is confirmed as it stands by the next momentum
	z.InsertNewMomentum()
	if left := z.Chain().GetUncommittedAccountBlocksByAddress(types.PillarContract); len(left) != 0 {
		t.Fatalf("%v blocks of the pillar contract still unconfirmed", len(left))
	}
	newFrontier, err := z.Chain().GetFrontierMomentumStore().GetAccountStore(types.PillarContract).Frontier()
	common.FailIfErr(t, err)
	if newFrontier.Hash != receive.Hash {
		t.Fatalf("confirmed frontier of the pillar contract is %v, wanted the pooled receive %v", newFrontier.Hash, receive.Hash)
	}
}

package tests

// Demonstration for the C18 finding: the pillar epoch-history and reward-history RPCs compute the first epoch of a page as
// lastEpoch - int64(pageIndex*pageSize) with the product taken in uint32. For pageIndex*pageSize >= 2^32 it wraps: a page far
// past the beginning of history returns the content of the first page instead of an empty list.

import (
	"fmt"
	"testing"
	"time"

	g "github.com/zenon-network/go-zenon/chain/genesis/mock"
	"github.com/zenon-network/go-zenon/rpc/api/embedded"
	"github.com/zenon-network/go-zenon/zenon/mock"
)

func TestGvcFindingEpochPageWrap(t *testing.T) {
	z := mock.NewMockZenonWithCustomEpochDuration(t, time.Hour)
	defer z.StopPanic()
	z.InsertMomentumsTo(500) // past the first reward epoch of the mock chain
	api := embedded.NewPillarApi(z, true)
	first, err := api.GetFrontierRewardByPage(g.Pillar1.Address, 0, 1024)
	if err != nil {
		t.Fatal(err)
	}
	far, err := api.GetFrontierRewardByPage(g.Pillar1.Address, 4194304, 1024) // 2^22 * 2^10 = 2^32 entries past the newest epoch
	if err != nil {
		t.Fatal(err)
	}
	fmt.Printf("page (0,1024): %d entries; page (4194304,1024): %d entries\n", len(first.List), len(far.List))
	if len(far.List) != 0 {
		fmt.Println("GVC-REPLAY: violated")
		t.Fatalf("a page 2^32 entries past the newest epoch returned %d entries (the first page again), expected none", len(far.List))
	}
	fmt.Println("GVC-REPLAY: holds")
}

package mock

// Demonstration for the known finding recorded under C16: chainBridge.InsertChain rolls the node's chain back to the fork
// point on the strength of the delivered batch's CLAIMED heights, before a single delivered momentum has been verified.
// A batch that claims to be longer but whose first element fails verification leaves the node rolled back.

import (
	"fmt"
	"testing"

	"github.com/zenon-network/go-zenon/chain/nom"
	"github.com/zenon-network/go-zenon/protocol"
	"github.com/zenon-network/go-zenon/vm"
)

func TestGvcFindingRollbackBeforeVerify(t *testing.T) {
	z := NewMockZenon(t)
	defer z.StopPanic()
	z.InsertMomentumsTo(10)
	store := z.Chain().GetFrontierMomentumStore()
	before, _ := store.GetFrontierMomentum()
	forkPoint, _ := store.GetMomentumByHeight(before.Height - 3)
	bridge := protocol.NewChainBridge(z.Chain(), z.Consensus(), z.Verifier(), vm.NewSupervisor(z.Chain(), z.Consensus()))
	// an unsigned, unverifiable side chain of 5 momentums on top of frontier-3: claims to end above our frontier
	var batch []*nom.DetailedMomentum
	prev := forkPoint
	for i := 0; i < 5; i++ {
		m := &nom.Momentum{Version: 1, ChainIdentifier: prev.ChainIdentifier, Height: prev.Height + 1, PreviousHash: prev.Hash, TimestampUnix: prev.TimestampUnix + 10}
		m.Hash = m.ComputeHash()
		batch = append(batch, &nom.DetailedMomentum{Momentum: m})
		prev = m
	}
	idx, err := bridge.InsertChain(batch)
	after, _ := z.Chain().GetFrontierMomentumStore().GetFrontierMomentum()
	fmt.Printf("InsertChain returned (%d, %v); frontier before=%d after=%d\n", idx, err != nil, before.Height, after.Height)
	if err == nil {
		t.Fatalf("an unsigned side chain was accepted")
	}
	if after.Hash != before.Hash {
		fmt.Println("GVC-REPLAY: violated")
		t.Fatalf("node left its chain (frontier %d -> %d) for a delivered chain whose first momentum failed verification", before.Height, after.Height)
	}
	fmt.Println("GVC-REPLAY: holds")
}

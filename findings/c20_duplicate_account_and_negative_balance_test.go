package genesis

import (
	"math/big"
	"testing"

	"github.com/zenon-network/go-zenon/chain/momentum"
	"github.com/zenon-network/go-zenon/common/db"
	"github.com/zenon-network/go-zenon/common/types"
	"github.com/zenon-network/go-zenon/vm/embedded/definition"
)

// gvcFindingLedgerSum builds the genesis state of an ACCEPTED configuration and adds up the balances of the given accounts.
func gvcFindingLedgerSum(t *testing.T, config *GenesisConfig, zts types.ZenonTokenStandard, accounts ...types.Address) *big.Int {
	genesis := NewGenesis(config)
	database := db.NewMemDB()
	if err := database.Apply(genesis.GetGenesisTransaction().Changes); err != nil {
		t.Fatal(err)
	}
	store := momentum.NewStore(genesis, database)
	sum := big.NewInt(0)
	for _, address := range accounts {
		balance, err := store.GetAccountStore(address).GetBalance(zts)
		if err != nil {
			t.Fatal(err)
		}
		sum.Add(sum, balance)
	}
	return sum
}

func gvcFindingConfig(blocks []*GenesisBlockConfig) *GenesisConfig {
	user := types.ParseAddressPanic("z1qqv2fnc3avjg39dcste4c5lag7l42xyykjf49w")
	token := func(name, symbol string, zts types.ZenonTokenStandard, supply int64) *definition.TokenInfo {
		return &definition.TokenInfo{Owner: types.TokenContract, TokenName: name, TokenSymbol: symbol, TokenDomain: "zenon.network",
			TotalSupply: big.NewInt(supply), MaxSupply: big.NewInt(supply * 10), Decimals: 8, IsMintable: true, IsBurnable: true, IsUtility: true, TokenStandard: zts}
	}
	return &GenesisConfig{
		ChainIdentifier: 100, ExtraData: "gvc-finding", GenesisTimestampSec: 1000000000, SporkAddress: &user,
		PillarConfig:  &PillarContractConfig{Pillars: []*definition.PillarInfo{}, Delegations: []*definition.DelegationInfo{}, LegacyEntries: []*definition.LegacyPillarEntry{}},
		TokenConfig:   &TokenContractConfig{Tokens: []*definition.TokenInfo{token("Zenon Coin", "ZNN", types.ZnnTokenStandard, 1000), token("QuasarCoin", "QSR", types.QsrTokenStandard, 5000)}},
		PlasmaConfig:  &PlasmaContractConfig{Fusions: []*definition.FusionInfo{}},
		SwapConfig:    &SwapContractConfig{Entries: []*definition.SwapAssets{}},
		SporkConfig:   &SporkConfig{Sporks: []*definition.Spork{}},
		GenesisBlocks: &GenesisBlocksConfig{Blocks: blocks},
	}
}

// Property C20: "a configuration whose balances do not add up to the declared token supplies ... is rejected".
// Two entries for ONE account: the supply check adds both (600 + 400 = the declared 1000), the state is built per entry.
func TestGvcFindingDuplicateGenesisAccount(t *testing.T) {
	a := types.ParseAddressPanic("z1qqv2fnc3avjg39dcste4c5lag7l42xyykjf49w")
	config := gvcFindingConfig([]*GenesisBlockConfig{
		{Address: a, BalanceList: map[types.ZenonTokenStandard]*big.Int{types.ZnnTokenStandard: big.NewInt(600), types.QsrTokenStandard: big.NewInt(5000)}},
		{Address: a, BalanceList: map[types.ZenonTokenStandard]*big.Int{types.ZnnTokenStandard: big.NewInt(400)}},
	})
	if err := CheckGenesis(config); err == nil {
		t.Errorf("accepted a configuration that lists the account %v twice; declared ZNN supply 1000, ZNN in the ledger built from it: %v", a, gvcFindingLedgerSum(t, config, types.ZnnTokenStandard, a))
	}
}

// A negative balance: the supply check adds it with its sign (1500 - 500 = the declared 1000); the ledger encodes amounts by
// magnitude.
func TestGvcFindingNegativeGenesisBalance(t *testing.T) {
	a := types.ParseAddressPanic("z1qqv2fnc3avjg39dcste4c5lag7l42xyykjf49w")
	b := types.ParseAddressPanic("z1qzal6c5s9rjnnxd2z7dvdhjxpmmj4fmw56a0mz")
	config := gvcFindingConfig([]*GenesisBlockConfig{
		{Address: a, BalanceList: map[types.ZenonTokenStandard]*big.Int{types.ZnnTokenStandard: big.NewInt(1500), types.QsrTokenStandard: big.NewInt(5000)}},
		{Address: b, BalanceList: map[types.ZenonTokenStandard]*big.Int{types.ZnnTokenStandard: big.NewInt(-500)}},
	})
	if err := CheckGenesis(config); err == nil {
		t.Errorf("accepted a configuration with a negative balance; declared ZNN supply 1000, ZNN in the ledger built from it: %v", gvcFindingLedgerSum(t, config, types.ZnnTokenStandard, a, b))
	}
}

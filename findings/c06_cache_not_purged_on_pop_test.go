package db

// Demonstration for the C06 finding: after a reorganisation every historical view must equal the one of a node that only ever
// saw the adopted branch. ldbManager keeps the undo overlays of historical views in two LRU caches that Pop() does not purge:
// commit 1, 2a, 3a; open view@1 (cached up to 3a); Pop, Pop; commit 2b, 3b (overwriting x); view@1 now shows branch-b data.

import (
	"fmt"
	"os"
	"testing"

	"github.com/zenon-network/go-zenon/common"
	"github.com/zenon-network/go-zenon/common/types"
)

type gvcCommit3 struct{ id, prev types.HashHeight }

func (c *gvcCommit3) Identifier() types.HashHeight { return c.id }
func (c *gvcCommit3) Previous() types.HashHeight   { return c.prev }
func (c *gvcCommit3) Serialize() ([]byte, error)   { return []byte{9}, nil }

type gvcTx3 struct {
	c *gvcCommit3
	p Patch
}

func (t *gvcTx3) GetCommits() []Commit { return []Commit{t.c} }
func (t *gvcTx3) StealChanges() Patch  { return t.p }

func gvcHH3(h byte, height uint64) types.HashHeight {
	return types.HashHeight{Hash: types.Hash{h}, Height: height}
}
func gvcPatch3(k, v string) Patch { p := NewPatch(); p.Put([]byte(k), []byte(v)); return p }

func gvcValueAt(m Manager, id types.HashHeight, key string) string {
	v, err := m.Get(id).Get([]byte(key))
	return fmt.Sprintf("%q/%v", v, err)
}

func TestGvcFindingCacheNotPurgedOnPop(t *testing.T) {
	build := func(withBranchA bool) string {
		dir, _ := os.MkdirTemp("", "gvc-c06")
		defer os.RemoveAll(dir)
		m := NewLevelDBManager(dir)
		defer m.Stop()
		common.DealWithErr(m.Add(&gvcTx3{&gvcCommit3{gvcHH3(1, 1), types.ZeroHashHeight}, gvcPatch3("x", "v1")}))
		if withBranchA {
			common.DealWithErr(m.Add(&gvcTx3{&gvcCommit3{gvcHH3(0x2a, 2), gvcHH3(1, 1)}, gvcPatch3("a", "2a")}))
			common.DealWithErr(m.Add(&gvcTx3{&gvcCommit3{gvcHH3(0x3a, 3), gvcHH3(0x2a, 2)}, gvcPatch3("a", "3a")}))
			_ = gvcValueAt(m, gvcHH3(1, 1), "x") // a historical view requested before the switch
			common.DealWithErr(m.Pop())
			common.DealWithErr(m.Pop())
		}
		common.DealWithErr(m.Add(&gvcTx3{&gvcCommit3{gvcHH3(0x2b, 2), gvcHH3(1, 1)}, gvcPatch3("x", "v2b")}))
		common.DealWithErr(m.Add(&gvcTx3{&gvcCommit3{gvcHH3(0x3b, 3), gvcHH3(0x2b, 2)}, gvcPatch3("x", "v3b")}))
		return gvcValueAt(m, gvcHH3(1, 1), "x")
	}
	switched, fresh := build(true), build(false)
	fmt.Printf("view@1.Get(x): node that switched branches = %s, node that only saw branch b = %s\n", switched, fresh)
	if switched != fresh {
		fmt.Println("GVC-REPLAY: violated")
		t.Fatalf("historical view differs after a reorganisation")
	}
	fmt.Println("GVC-REPLAY: holds")
}

package db

// Demonstration for the C07 finding: "a commit is accepted only on top of the current frontier - any other parent is refused
// without changing the store". ldbManager.Add compares the parent with the frontier pointer read from the PARENT'S OWN VIEW,
// which is always the parent: a commit on a stale (known, non-frontier) parent is applied on top of the frontier and nil is
// returned.

import (
	"fmt"
	"os"
	"testing"

	"github.com/zenon-network/go-zenon/common"
	"github.com/zenon-network/go-zenon/common/types"
)

type gvcCommit2 struct{ id, prev types.HashHeight }

func (c *gvcCommit2) Identifier() types.HashHeight { return c.id }
func (c *gvcCommit2) Previous() types.HashHeight   { return c.prev }
func (c *gvcCommit2) Serialize() ([]byte, error)   { return []byte{9}, nil }

type gvcTx2 struct {
	c *gvcCommit2
	p Patch
}

func (t *gvcTx2) GetCommits() []Commit { return []Commit{t.c} }
func (t *gvcTx2) StealChanges() Patch  { return t.p }

func gvcHH2(h byte, height uint64) types.HashHeight {
	return types.HashHeight{Hash: types.Hash{h}, Height: height}
}
func gvcPatch(k, v string) Patch { p := NewPatch(); p.Put([]byte(k), []byte(v)); return p }

func TestGvcFindingStaleParentAdd(t *testing.T) {
	dir, _ := os.MkdirTemp("", "gvc-c07b")
	defer os.RemoveAll(dir)
	m := NewLevelDBManager(dir)
	defer m.Stop()
	common.DealWithErr(m.Add(&gvcTx2{&gvcCommit2{gvcHH2(1, 1), types.ZeroHashHeight}, gvcPatch("x", "1")}))
	common.DealWithErr(m.Add(&gvcTx2{&gvcCommit2{gvcHH2(2, 2), gvcHH2(1, 1)}, gvcPatch("x", "2")}))
	before := DebugDB(m.Frontier())
	// a competing commit on the STALE parent 1 (the frontier is 2)
	err := m.Add(&gvcTx2{&gvcCommit2{gvcHH2(3, 2), gvcHH2(1, 1)}, gvcPatch("y", "stale")})
	after := DebugDB(m.Frontier())
	fmt.Printf("Add on stale parent returned err=%v; store changed=%v; frontier=%v\n", err, before != after, GetFrontierIdentifier(m.Frontier()))
	if err == nil || before != after {
		fmt.Println("GVC-REPLAY: violated")
		t.Fatalf("a commit on a stale parent was accepted / changed the store")
	}
	fmt.Println("GVC-REPLAY: holds")
}

package mock

// Demonstration for the finding recorded under C16/C15: chainBridge.InsertChain dereferences the result of
// GetMomentumByHeight(head.Height-1) without a nil test. A delivered momentum whose (unverified) height leaves a gap above
// the node's frontier makes the lookup return (nil, nil) and the node panics on the sync goroutine.
// Run: go test -overlay <overlay mapping this file into /repo/zenon/mock> -run TestGvcFindingInsertChainNilTarget ./zenon/mock

import (
	"fmt"
	"testing"

	"github.com/zenon-network/go-zenon/chain/nom"
	"github.com/zenon-network/go-zenon/protocol"
	"github.com/zenon-network/go-zenon/vm"
)

func TestGvcFindingInsertChainNilTarget(t *testing.T) {
	z := NewMockZenon(t)
	defer z.StopPanic()
	z.InsertMomentumsTo(5)
	frontier, err := z.Chain().GetFrontierMomentumStore().GetFrontierMomentum()
	if err != nil {
		t.Fatal(err)
	}
	bridge := protocol.NewChainBridge(z.Chain(), z.Consensus(), z.Verifier(), vm.NewSupervisor(z.Chain(), z.Consensus()))
	// a delivered momentum claiming height frontier+2 (a gap of one): nothing about it has been verified yet
	forged := &nom.Momentum{Version: 1, ChainIdentifier: frontier.ChainIdentifier, Height: frontier.Height + 2, PreviousHash: frontier.Hash, TimestampUnix: frontier.TimestampUnix + 20}
	forged.Hash = forged.ComputeHash()
	defer func() {
		if r := recover(); r != nil {
			fmt.Println("GVC-REPLAY: violated", r)
			t.Fatalf("InsertChain panicked on a delivered momentum: %v", r)
		}
		fmt.Println("GVC-REPLAY: holds")
	}()
	_, err = bridge.InsertChain([]*nom.DetailedMomentum{{Momentum: forged, AccountBlocks: nil}})
	if err == nil {
		t.Fatalf("expected an error for an unlinkable momentum")
	}
}

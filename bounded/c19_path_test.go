package wallet

// Bounded stand-in for property C19 ("hardened paths only"): the path grammar is a regular expression, which the deductive
// engine does not interpret. Labelled bounded, never counted as proved.
// Bound: every path "m" + up to 3 segments drawn from the 16 segment strings below (4 368 paths), each also with the trailing
// variations "", "/", " " - against the real isValidPath / DeriveForPath.
// Checked: (1) a path is accepted only if every segment is digits followed by exactly one apostrophe; (2) DeriveForPath succeeds
// only on accepted paths whose indices are all below 2^31; (3) two accepted paths with different index vectors give different
// keys, equal index vectors (leading zeros) give equal keys; (4) derivation is deterministic.

import (
	"bytes"
	"strconv"
	"strings"
	"testing"
)

var gvcSegments = []string{"0'", "1'", "44'", "73404'", "007'", "2147483647'", "2147483648'", "4294967295'", "4294967296'", "0", "1", "0''", "'", "", "x'", "1x'"}

func gvcHardened(seg string) (uint64, bool) {
	if len(seg) < 2 || seg[len(seg)-1] != '\'' {
		return 0, false
	}
	d := seg[:len(seg)-1]
	for _, c := range d {
		if c < '0' || c > '9' {
			return 0, false
		}
	}
	v, err := strconv.ParseUint(d, 10, 64)
	if err != nil {
		return 0, false
	}
	return v, true
}

func TestGvcBoundedHardenedPathsOnly(t *testing.T) {
	seed := bytes.Repeat([]byte{7}, 32)
	keys := map[string]string{} // index vector -> private key
	var rec func(prefix string, idx []uint64, allHardened bool, depth int)
	n := 0
	check := func(path string, idx []uint64, allHardened bool) {
		n++
		wantValid := allHardened && len(idx) > 0
		for _, x := range idx {
			if x > 0xffffffff {
				wantValid = false // does not fit 32 bits
			}
		}
		if got := isValidPath(path); got && !wantValid {
			t.Fatalf("GVC-BOUNDED violated: isValidPath(%q) accepted a path with a segment that is not digits followed by one apostrophe", path)
		}
		kp, err := DeriveForPath(path, seed)
		if err == nil {
			if !wantValid {
				t.Fatalf("GVC-BOUNDED violated: DeriveForPath(%q) derived a key for a path that is not a hardened path", path)
			}
			var sb strings.Builder
			for _, x := range idx {
				if x >= 1<<31 {
					t.Fatalf("GVC-BOUNDED violated: DeriveForPath(%q) accepted index %d >= 2^31", path, x)
				}
				sb.WriteString(strconv.FormatUint(x, 10) + "/")
			}
			k := string(kp.Private)
			if prev, ok := keys[sb.String()]; ok && prev != k {
				t.Fatalf("GVC-BOUNDED violated: index vector %s derived two different keys", sb.String())
			}
			keys[sb.String()] = k
			kp2, err2 := DeriveForPath(path, seed)
			if err2 != nil || !bytes.Equal(kp2.Private, kp.Private) || kp2.Address != kp.Address {
				t.Fatalf("GVC-BOUNDED violated: derivation of %q is not deterministic", path)
			}
		}
	}
	rec = func(prefix string, idx []uint64, allHardened bool, depth int) {
		if depth > 0 {
			for _, tail := range []string{"", "/", " "} {
				check(prefix+tail, idx, allHardened && tail == "")
			}
		}
		if depth == 3 {
			return
		}
		for _, s := range gvcSegments {
			v, h := gvcHardened(s)
			rec(prefix+"/"+s, append(append([]uint64{}, idx...), v), allHardened && h, depth+1)
		}
	}
	rec("m", nil, true, 0)
	// distinct index vectors -> distinct keys
	seen := map[string]string{}
	for iv, k := range keys {
		if other, dup := seen[k]; dup {
			t.Fatalf("GVC-BOUNDED violated: index vectors %s and %s derive the same key", iv, other)
		}
		seen[k] = iv
	}
	t.Logf("%d paths checked, %d accepted index vectors", n, len(keys))
}

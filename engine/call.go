package main

// Calls: builtins, library models, contracts, inlining, havoc. Also the static write-set analysis used for loops.

import (
	"fmt"
	"go/token"
	"go/types"
	"math/big"
	"strings"

	"golang.org/x/tools/go/ssa"
)

type bigInt = big.Int

var bigOne = big.NewInt(1)

const maxInlineDepth = 6
const maxInlineInstrs = 400

func (c *Ctx) contractFor(fn *ssa.Function) *Contract {
	if fn == nil {
		return nil
	}
	pkg, key := FuncKey(fn)
	if con, ok := c.S.Contracts[pkg+"."+key]; ok {
		return con
	}
	return nil
}

func ifaceMethodKey(recv types.Type, m *types.Func) (string, bool) {
	if n, ok := recv.(*types.Named); ok && n.Obj().Pkg() != nil {
		return n.Obj().Pkg().Path() + "." + n.Obj().Name() + "." + m.Name(), true
	}
	return "", false
}

func (c *Ctx) ifaceContract(cc *ssa.CallCommon) *Contract {
	// search the named interface and the interfaces it embeds
	if k, ok := ifaceMethodKey(cc.Value.Type(), cc.Method); ok {
		if con, ok := c.S.Contracts[k]; ok {
			return con
		}
	}
	// method declared in an embedded interface: key by the declaring package + interface that declares it
	if cc.Method.Pkg() != nil {
		recv := cc.Method.Type().(*types.Signature).Recv()
		if recv != nil {
			if k, ok := ifaceMethodKey(recv.Type(), cc.Method); ok {
				if con, ok := c.S.Contracts[k]; ok {
					return con
				}
			}
		}
	}
	return nil
}

// funcTypeContract finds the contract of a dynamic call by the named function type of the called value (looking through
// loads, parameters and phis is not needed: the static type of the value is what is named).
func (c *Ctx) funcTypeContract(cc *ssa.CallCommon) *Contract {
	n, ok := cc.Value.Type().(*types.Named)
	if !ok || n.Obj().Pkg() == nil {
		return nil
	}
	if _, isSig := n.Underlying().(*types.Signature); !isSig {
		return nil
	}
	return c.S.Contracts[n.Obj().Pkg().Path()+"."+n.Obj().Name()]
}

func instrCount(fn *ssa.Function) int {
	n := 0
	for _, b := range fn.Blocks {
		n += len(b.Instrs)
	}
	return n
}

func (fr *Frame) onStack(fn *ssa.Function) bool {
	for f := fr; f != nil; f = f.Parent {
		if f.Fn == fn {
			return true
		}
	}
	return false
}

func (c *Ctx) inlinable(fn *ssa.Function) bool {
	if fn == nil || fn.Blocks == nil {
		return false
	}
	if fn.Pkg == nil && fn.Parent() == nil && fn.Synthetic == "" {
		return false
	}
	pkg := ""
	if fn.Pkg != nil {
		pkg = fn.Pkg.Pkg.Path()
	} else if fn.Parent() != nil && fn.Parent().Pkg != nil {
		pkg = fn.Parent().Pkg.Pkg.Path()
	} else if fn.Object() != nil && fn.Object().Pkg() != nil {
		pkg = fn.Object().Pkg().Path()
	}
	if !inModule(pkg) {
		return false
	}
	if instrCount(fn) > maxInlineInstrs {
		return false
	}
	for _, b := range fn.Blocks {
		for _, ins := range b.Instrs {
			switch ins.(type) {
			case *ssa.Go, *ssa.Select, *ssa.Send:
				return false
			}
		}
	}
	return true
}

func (fr *Frame) freshResult(sig *types.Signature, name string) *Val {
	c := fr.C
	res := sig.Results()
	var facts []*Term
	var v *Val
	switch res.Len() {
	case 0:
		v = &Val{K: KUnit}
	case 1:
		v = freshVal(res.At(0).Type(), "ret!"+name, &facts)
	default:
		v = freshVal(res, "ret!"+name, &facts)
	}
	for _, f := range facts {
		c.addFact(f)
	}
	return v
}

// call executes a call; returns (result, state). A nil state means the call does not return.
func (fr *Frame) call(st *State, cc *ssa.CallCommon, pos token.Pos) (rv *Val, rst *State) {
	c := fr.C
	sig := cc.Signature()
	// builtins
	if b, ok := cc.Value.(*ssa.Builtin); ok {
		return fr.builtin(st, b, cc, pos), st
	}
	var args []*Val
	if cc.IsInvoke() {
		recv := fr.val(st, cc.Value)
		args = append(args, recv)
		// a method call on a nil interface value panics: execution continues past the call only with a non-nil receiver
		if recv.K == KIface && recv.X != nil && !fr.Safety {
			st.R = And(st.R, Neq(recv.X, Num(0)))
		}
	}
	for _, a := range cc.Args {
		args = append(args, fr.val(st, a))
	}
	name := callName(cc)
	// ghost: how many calls to a callee of this (short) name this path has executed so far - `calls("Name")` in specifications,
	// for ordering clauses ("X is built only after Y has checked it"). Exact on straight-line code; not carried through loops.
	if fr.Top {
		short := name
		if i := strings.LastIndex(short, "."); i >= 0 {
			short = short[i+1:]
		}
		key := "calls:" + short
		cur, ok := st.Ghost[key]
		if !ok {
			cur = Num(0)
		}
		// the count is recorded in the state the call RETURNS (an inlined callee with several return points hands back a
		// merged state, not the one it was entered with)
		defer func(k string, c *Term) {
			st.Ghost[k] = Add(c, Num(1))
			if rst != nil && rst != st {
				rst.Ghost[k] = Add(c, Num(1))
			}
		}(key, cur)
	}
	// caller-side assertions attached to this callee
	if fr.Top && fr.Con != nil && c.noObligations == 0 {
		for i, ac := range fr.Con.AtCalls {
			if (strings.HasSuffix(name, "."+ac.Callee) || strings.HasSuffix(name, ")."+ac.Callee) || name == ac.Callee) && (ac.Ordinal == 0 || ac.Ordinal == callOrdinal(fr.Fn, cc)) {
				fr.midEval = true
				aenv := map[string]*Val{}
				for k, v := range fr.envTop {
					aenv[k] = v
				}
				for ai, av := range args {
					aenv[fmt.Sprintf("arg%d", ai)] = av // call arguments (receiver first)
				}
				g := fr.evalBool(ac.Clause.Expr, st, fr.Entry, aenv)
				fr.midEval = false
				c.cover("at-call:"+ac.Callee+"@"+fr.callSiteKey(cc, pos), st)
				c.oblige(fr, "at-call", ac.Callee+"."+clauseName("", ac.Clause, i)+"@"+fr.callSiteKey(cc, pos), st, g, "at every call to "+ac.Callee+": "+ac.Clause.Src, pos)
				fr.atCallHit[i] = true
			}
		}
	}
	if !fr.Top && c.noObligations == 0 {
		fr.deferAtCalls(st, cc, name, args, pos)
	}
	// library models
	if m, ok := libModels[name]; ok {
		c.AssumedLib[name] = true
		return m(fr, st, args, cc, pos)
	}
	var callee *ssa.Function
	var closure *Val
	if !cc.IsInvoke() {
		callee = cc.StaticCallee()
		if callee == nil {
			fv := fr.val(st, cc.Value)
			if fv.Fn != nil {
				callee = fv.Fn
				closure = fv
			}
		} else if mc, ok := cc.Value.(*ssa.MakeClosure); ok {
			closure = fr.val(st, mc)
		}
	}
	if callee != nil {
		if noReturn(callee) {
			return nil, nil
		}
		// a contract marked `inline` describes only the recursive calls: the outermost call is executed, a call to a function
		// already on the inlining stack is replaced by the contract
		if con := c.contractFor(callee); con != nil && (!con.Inline || fr.onStack(callee)) {
			fr.callClosure = closure
			r := fr.applyContractAt(st, con, callee.String(), callee, sig, args, pos, cc)
			fr.callClosure = nil
			return r, st
		}
		if fr.Depth < maxInlineDepth && c.inlinable(callee) && !fr.onStack(callee) {
			// a callee the engine cannot model is abstracted like an unknown call (sound: havoc)
			var rv *Val
			var rs *State
			ok := func() (ok bool) {
				defer func() {
					if r := recover(); r != nil {
						if u, isU := r.(unsupported); isU {
							c.note("%s: call to %s abstracted (not modellable: %s)", fr.Fn, callee, u.msg)
							ok = false
							return
						}
						panic(r)
					}
				}()
				rv, rs = fr.inline(st, callee, args, closure, pos)
				return true
			}()
			if ok {
				return rv, rs
			}
		}
	}
	if cc.IsInvoke() {
		if con := c.ifaceContract(cc); con != nil {
			return fr.applyContractAt(st, con, name, nil, sig, args, pos, cc), st
		}
	} else if callee == nil {
		// a call through a value of a named function type: contract keyed by the type (`func SignFunc(data)`), if any
		if con := c.funcTypeContract(cc); con != nil {
			return fr.applyContractAt(st, con, name, nil, sig, args, pos, cc), st
		}
	}
	// unknown: havoc
	c.Abstracted[name] = true
	st.havocAll()
	c.reassertConstGlobals(st)
	return fr.freshResult(sig, shortName(name)), st
}

// callOrdinal: the 1-based position of this call among the calls to the same callee in the function, in source (block
// index) order. Names built from it survive edits that merely shift lines.
func callOrdinal(fn *ssa.Function, cc *ssa.CallCommon) int {
	name := callName(cc)
	n := 0
	for _, b := range fn.Blocks {
		for _, ins := range b.Instrs {
			var c2 *ssa.CallCommon
			switch x := ins.(type) {
			case *ssa.Call:
				c2 = &x.Call
			case *ssa.Defer:
				c2 = &x.Call
			case *ssa.Go:
				c2 = &x.Call
			}
			if c2 == nil || callName(c2) != name {
				continue
			}
			n++
			if c2 == cc {
				return n
			}
		}
	}
	return 0
}

func (fr *Frame) callSiteKey(cc *ssa.CallCommon, pos token.Pos) string {
	if cc != nil && fr.Top {
		if n := callOrdinal(fr.Fn, cc); n > 0 {
			return fmt.Sprintf("#%d", n)
		}
	}
	return fr.C.posKey(pos)
}

func shortName(n string) string {
	if i := strings.LastIndex(n, "/"); i >= 0 {
		n = n[i+1:]
	}
	return strings.NewReplacer("(", "", ")", "", "*", "", " ", "").Replace(n)
}

func noReturn(fn *ssa.Function) bool {
	switch fn.String() {
	case "os.Exit", "log.Fatal", "log.Fatalf", "log.Fatalln", "log.Panic", "log.Panicf", "runtime.Goexit":
		return true
	}
	return false
}

func (fr *Frame) inline(st *State, fn *ssa.Function, args []*Val, closure *Val, pos token.Pos) (*Val, *State) {
	c := fr.C
	c.InlinedFns[fn.String()] = true
	sub := c.newFrame(fn, fr.Depth+1)
	sub.Parent = fr
	sub.Safety = fr.Safety
	sub.Closure = closure
	sub.Con = c.contractFor(fn) // for loop invariants of inlined functions
	sub.Entry = st.clone()
	sub.run(st.clone(), args)
	if fr.Safety && c.noObligations == 0 {
		for _, p := range sub.Panics {
			c.oblige(fr, "safe", "panic@"+shortName(fn.Name())+"."+c.posKey(p.pos), p.st, TFalse, "explicit panic in inlined "+fn.String()+" is unreachable", p.pos)
		}
	}
	if len(sub.Returns) == 0 {
		return nil, nil
	}
	var conds []*Term
	var sts []*State
	for _, r := range sub.Returns {
		conds = append(conds, r.st.R)
		sts = append(sts, r.st)
	}
	ns := mergeStates(conds, sts)
	// the call returns iff some return point is reached
	var res *Val
	nres := fn.Signature.Results().Len()
	for i := len(sub.Returns) - 1; i >= 0; i-- {
		r := sub.Returns[i]
		var rv *Val
		switch nres {
		case 0:
			rv = &Val{K: KUnit}
		case 1:
			rv = r.vals[0]
		default:
			rv = &Val{K: KTuple, T: fn.Signature.Results(), Fs: r.vals}
		}
		if res == nil {
			res = rv
		} else if nres > 0 {
			res = iteVal(r.st.R, rv, res)
		}
	}
	return res, ns
}

// applyContract: assert requires, havoc modifies, assume ensures.
func (fr *Frame) applyContract(st *State, con *Contract, name string, callee *ssa.Function, sig *types.Signature, args []*Val, pos token.Pos) *Val {
	return fr.applyContractAt(st, con, name, callee, sig, args, pos, nil)
}

func (fr *Frame) applyContractAt(st *State, con *Contract, name string, callee *ssa.Function, sig *types.Signature, args []*Val, pos token.Pos, cc *ssa.CallCommon) *Val {
	c := fr.C
	c.UsedContracts[con.PkgPath+"."+con.Key] = true
	env := map[string]*Val{}
	bindParams(env, con, callee, sig, args)
	if sp := c.P.SSAPkg[con.PkgPath]; sp != nil {
		env["$pkg"] = &Val{K: KUnit, Pkg: sp.Pkg}
	}
	// a closure's contract may mention the variables it captures: bind them to their current values
	if cl := fr.callClosure; cl != nil && callee != nil && len(cl.Binds) == len(callee.FreeVars) {
		for i, fv := range callee.FreeVars {
			if _, taken := env[fv.Name()]; !taken {
				if pt, ok := fv.Type().(*types.Pointer); ok && cl.Binds[i] != nil {
					env[fv.Name()] = fr.load(st, cl.Binds[i], pt.Elem())
				}
			}
		}
	}
	pre := st.clone()
	short := con.Key
	if c.noObligations == 0 {
		for i, rq := range con.Requires {
			g := fr.evalBoolEnv(rq.Expr, st, pre, env)
			c.oblige(fr, "call-pre", short+"."+clauseName("", rq, i)+"@"+fr.callSiteKey(cc, pos), st, g, "precondition of "+name+": "+rq.Src, pos)
		}
	} else {
		for _, rq := range con.Requires {
			g := fr.evalBoolEnv(rq.Expr, st, pre, env)
			c.addFact(Implies(st.R, g))
		}
	}
	// frame
	if !con.ModSet {
		st.havocAll()
		c.reassertConstGlobals(st)
	} else {
		for _, m := range con.Modifies {
			fr.havocLoc(st, pre, m, env)
		}
	}
	var res *Val
	if con.Attrs["function"] != "" || con.Pure && con.Attrs["heapfree"] != "" {
		res = fr.fnAppResult(con, sig, args)
	}
	if res == nil {
		res = fr.freshResult(sig, shortName(con.Key))
	}
	bindResults(env, con, callee, sig, res)
	// the call may allocate: results described as fresh(...) lie between the two allocation counters
	na := Fresh("alloc", SInt)
	nonNegSyms[na.Name] = true
	c.addFact(Le(st.Alloc, na))
	st.Alloc = na
	c.allocFacts(res, st.Alloc)
	for _, en := range con.Ensures {
		if en.Local {
			continue
		}
		g := fr.evalBoolEnvFresh(en.Expr, st, pre, env, pre.Alloc)
		c.addFact(Implies(st.R, g))
	}
	return res
}

// fnAppResult gives the result of a mathematical function (scalar args and result) as an uninterpreted application.
func (fr *Frame) fnAppResult(con *Contract, sig *types.Signature, args []*Val) *Val {
	if sig.Results().Len() != 1 {
		return nil
	}
	var ts []*Term
	for _, a := range args {
		switch a.K {
		case KInt, KBool, KStr, KMath:
			ts = append(ts, a.X)
		case KArr:
			ts = append(ts, arrAsInt(a))
		default:
			return nil
		}
	}
	rt := sig.Results().At(0).Type()
	switch kindOf(rt) {
	case KInt, KBool, KStr, KArr:
	default:
		return nil
	}
	x := App("fn!"+strings.TrimPrefix(con.PkgPath, modPath+"/")+"."+con.Key, sortOf(rt), ts...)
	if lo, hi, ok := intRange(rt); ok {
		fr.C.addFact(And(Le(lo, x), Le(x, hi)))
	}
	return &Val{K: kindOf(rt), T: rt, X: x}
}

func bindParams(env map[string]*Val, con *Contract, callee *ssa.Function, sig *types.Signature, args []*Val) {
	var names []string
	if callee != nil {
		for _, p := range callee.Params {
			names = append(names, p.Name())
		}
	} else {
		names = append(names, "self")
		for i := 0; i < sig.Params().Len(); i++ {
			n := sig.Params().At(i).Name()
			if n == "" || n == "_" {
				n = fmt.Sprintf("arg%d", i)
			}
			names = append(names, n)
		}
	}
	for i, a := range args {
		if i < len(names) {
			env[names[i]] = a
		}
	}
	// positional renames from the contract header
	for i, n := range con.Params {
		if i < len(args) && n != "_" {
			env[n] = args[i]
		}
	}
	if len(args) > 0 && (callee == nil || callee.Signature.Recv() != nil) {
		env["self"] = args[0]
	}
}

func bindResults(env map[string]*Val, con *Contract, callee *ssa.Function, sig *types.Signature, res *Val) {
	n := sig.Results().Len()
	var vals []*Val
	switch n {
	case 0:
		return
	case 1:
		vals = []*Val{res}
	default:
		vals = res.Fs
	}
	env["result"] = vals[0]
	for i, v := range vals {
		env[fmt.Sprintf("result%d", i)] = v
		if nm := sig.Results().At(i).Name(); nm != "" && nm != "_" {
			if _, clash := env[nm]; !clash {
				env[nm] = v
			}
		}
		if i < len(con.Results) {
			env[con.Results[i]] = v
		}
	}
}

// havocLoc havocs the location described by a modifies entry: "x.f", "x.*", "x[*]", "*" (everything).
func (fr *Frame) havocLoc(st, pre *State, m string, env map[string]*Val) {
	c := fr.C
	if m == "*" {
		st.havocAll()
		c.reassertConstGlobals(st)
		return
	}
	if isRawPrefix(m) {
		// type-level entry: the named heap array(s) may change for every object
		st.havocKeys([]string{m}, nil)
		return
	}
	all := false
	elems := false
	expr := m
	if strings.HasSuffix(expr, ".*") {
		all = true
		expr = strings.TrimSuffix(expr, ".*")
	} else if strings.HasSuffix(expr, "[*]") {
		elems = true
		expr = strings.TrimSuffix(expr, "[*]")
	}
	e, err := ParseSpec(expr)
	if err != nil {
		panic(err)
	}
	if all {
		v := fr.evalEnv(e, pre, pre, env)
		switch v.K {
		case KPtr:
			elem := under(v.T).(*types.Pointer).Elem()
			var facts []*Term
			fv := freshVal(elem, "mod", &facts)
			for _, f := range facts {
				c.addFact(f)
			}
			fr.store(st, v, elem, fv)
			if isBigIntPtr(v.T) {
				arr := st.heapGet("bigval", SArr(SInt, SInt))
				st.heapSet("bigval", Store(arr, v.X, Fresh("mod!bigval", SInt)))
			}
			// model fields of the object
			fr.havocModelFields(st, v, "")
		case KIface:
			fr.havocModelFields(st, v, "")
		default:
			panic(specError{"modifies x.*: x must be a pointer or interface: " + m})
		}
		return
	}
	if elems {
		v := fr.evalEnv(e, pre, pre, env)
		if v.K != KSlice {
			panic("modifies x[*]: x must be a slice: " + m)
		}
		et := under(v.T).(*types.Slice).Elem()
		var ls []leaf
		leavesOf(et, "", &ls)
		for _, l := range ls {
			key := heapKey("S:"+tstr(et), l.path)
			srt := SArr(SInt, SArr(SInt, sortOf(l.t)))
			arr := st.heapGet(key, srt)
			// elements outside [off, off+len) are preserved
			na := Fresh("mod!elems", srt.Elem)
			q := BoundVar("j", SInt)
			c.addFact(Forall([]*Term{q}, Implies(Or(Lt(q, v.Off), Le(Add(v.Off, v.Len), q)), Eq(Select(na, q), Select(Select(arr, v.X), q)))))
			st.heapSet(key, Store(arr, v.X, na))
		}
		return
	}
	// x.f : field or model field
	if e.Kind != "sel" {
		panic(specError{"unsupported modifies entry " + m})
	}
	base := fr.evalEnv(e.Args[0], pre, pre, env)
	if mf := c.modelField(base.T, e.Name); mf != nil {
		fr.havocModelFields(st, base, e.Name)
		return
	}
	if base.K != KPtr {
		panic(specError{"modifies x.f: x must be a pointer or carry a model field: " + m})
	}
	stt, ok := under(under(base.T).(*types.Pointer).Elem()).(*types.Struct)
	if !ok {
		panic("modifies x.f: x must point to a struct: " + m)
	}
	for i := 0; i < stt.NumFields(); i++ {
		if stt.Field(i).Name() == e.Name {
			np := *base
			np.Path = base.Path + "." + e.Name
			var facts []*Term
			fv := freshVal(stt.Field(i).Type(), "mod", &facts)
			for _, f := range facts {
				c.addFact(f)
			}
			fr.store(st, &np, stt.Field(i).Type(), fv)
			return
		}
	}
	panic(specError{"modifies: no field " + e.Name + " in " + m})
}

// ---------------------------------------------------------------------------------------------
// builtins

func (fr *Frame) builtin(st *State, b *ssa.Builtin, cc *ssa.CallCommon, pos token.Pos) *Val {
	c := fr.C
	var args []*Val
	for _, a := range cc.Args {
		args = append(args, fr.val(st, a))
	}
	intT := types.Typ[types.Int]
	switch b.Name() {
	case "len":
		a := args[0]
		switch a.K {
		case KSlice:
			return &Val{K: KInt, T: intT, X: a.Len}
		case KStr:
			l := App("gstr.len", SInt, a.X)
			c.addFact(Le(Num(0), l))
			return &Val{K: KInt, T: intT, X: l}
		case KArr:
			return &Val{K: KInt, T: intT, X: Num(under(a.T).(*types.Array).Len())}
		case KMap:
			ln := st.heapGet("M:"+tstr(a.T)+"#len", SArr(SInt, SInt))
			l := Ite(Eq(a.X, Num(0)), Num(0), Select(ln, a.X))
			c.addFact(Le(Num(0), l))
			return &Val{K: KInt, T: intT, X: l}
		case KPtr: // pointer to array
			return &Val{K: KInt, T: intT, X: Num(under(under(a.T).(*types.Pointer).Elem()).(*types.Array).Len())}
		}
		return c.opaque(intT, "len")
	case "cap":
		a := args[0]
		if a.K == KSlice {
			return &Val{K: KInt, T: intT, X: a.Cap}
		}
		if a.K == KArr {
			return &Val{K: KInt, T: intT, X: Num(under(a.T).(*types.Array).Len())}
		}
		return c.opaque(intT, "cap")
	case "append":
		return fr.appendOp(st, args[0], args[1], cc.Args[1].Type())
	case "copy":
		res := fr.copyOp(st, args[0], args[1], cc.Args[1].Type())
		// copy(a[:], src) where a is an array inside a struct or a local cell: the slice was modelled as a copy of the array
		// (sliceOp); write the copied bytes back into the array itself
		if sl, ok := cc.Args[0].(*ssa.Slice); ok {
			if pt, ok := under(sl.X.Type()).(*types.Pointer); ok {
				if at, ok := under(pt.Elem()).(*types.Array); ok {
					base := fr.val(st, sl.X)
					if !(base.Cell == nil && strings.HasPrefix(base.Root, "S:") && base.Idx == nil) {
						if sl.Low != nil || sl.High != nil {
							unsup("copy into a partial slice of an array that lives inside an object")
						}
						key := heapKey("S:"+tstr(at.Elem()), "")
						content := Select(st.heapGet(key, SArr(SInt, SArr(SInt, sortOf(at.Elem())))), args[0].X)
						fr.store(st, base, pt.Elem(), &Val{K: KArr, T: pt.Elem(), X: content})
					}
				}
			}
		}
		return res
	case "delete":
		m, k := args[0], args[1]
		t := m.T
		ks := mapKeySort(t)
		root := "M:" + tstr(t)
		kt := fr.mapKeyTerm(k)
		has := st.heapGet(root+"#has", SArr(SInt, SArr(ks, SBool)))
		was := Select(Select(has, m.X), kt)
		st.heapSet(root+"#has", Store(has, m.X, Store(Select(has, m.X), kt, TFalse)))
		ln := st.heapGet(root+"#len", SArr(SInt, SInt))
		st.heapSet(root+"#len", Store(ln, m.X, Ite(was, Sub(Select(ln, m.X), Num(1)), Select(ln, m.X))))
		return &Val{K: KUnit}
	case "min", "max":
		r := args[0]
		for _, a := range args[1:] {
			var cnd *Term
			if b.Name() == "min" {
				cnd = Le(r.X, a.X)
			} else {
				cnd = Ge(r.X, a.X)
			}
			r = &Val{K: r.K, T: r.T, X: Ite(cnd, r.X, a.X)}
		}
		return r
	case "ssa:deferstack":
		return &Val{K: KOpaque, T: cc.Signature().Results().At(0).Type(), X: Num(0)}
	case "ssa:wrapnilchk":
		return args[0]
	case "print", "println":
		return &Val{K: KUnit}
	case "recover":
		if c.recoverNil > 0 {
			// deferred function running on the normal path: no panic is in flight
			return &Val{K: KIface, T: cc.Signature().Results().At(0).Type(), X: Num(0)}
		}
		return c.opaque(cc.Signature().Results().At(0).Type(), "recover")
	case "clear":
		st.havocAll()
		return &Val{K: KUnit}
	}
	unsup("builtin %s", b.Name())
	return nil
}

// sliceContent returns the per-leaf backing arrays for element type et: list of (key, sort).
func sliceLeaves(et types.Type) []leaf {
	var ls []leaf
	leavesOf(et, "", &ls)
	return ls
}

func (fr *Frame) appendOp(st *State, s, t *Val, tT types.Type) *Val {
	c := fr.C
	et := under(s.T).(*types.Slice).Elem()
	root := "S:" + tstr(et)
	var n *Term
	var srcArr func(l leaf, j *Term) *Term // element j of source
	if t.K == KStr {
		n = App("gstr.len", SInt, t.X)
		c.addFact(Le(Num(0), n))
		bs := App("gstr.bytes", SArr(SInt, SInt), t.X)
		srcArr = func(l leaf, j *Term) *Term { return Select(bs, j) }
	} else {
		n = t.Len
		pre := st.clone()
		srcArr = func(l leaf, j *Term) *Term {
			arr := pre.heapGet(heapKey(root, l.path), SArr(SInt, SArr(SInt, sortOf(l.t))))
			return Select(Select(arr, t.X), SliceIdx(t.Off, j))
		}
	}
	newLen := Add(s.Len, n)
	fits := Le(newLen, s.Cap)
	var preBytes *Term
	if b, ok := under(et).(*types.Basic); ok && b.Kind() == types.Uint8 && t.K != KStr {
		preBytes = st.heapGet("S:byte", SArr(SInt, SArr(SInt, SInt)))
	}
	fresh := st.Alloc
	st.Alloc = Add(st.Alloc, Num(1))
	newCap := Fresh("append!cap", SInt)
	c.addFact(Le(newLen, newCap))
	c.addFact(Le(newCap, Pow2(62)))
	resArr := Ite(fits, s.X, fresh)
	resOff := Ite(fits, s.Off, Num(0))
	resCap := Ite(fits, s.Cap, newCap)
	for _, l := range sliceLeaves(et) {
		key := heapKey(root, l.path)
		esrt := sortOf(l.t)
		srt := SArr(SInt, SArr(SInt, esrt))
		arr := st.heapGet(key, srt)
		oldC := Select(arr, s.X)
		var newC *Term
		if n.IsConst() && n.Val.IsInt64() && n.Val.Int64() <= 16 {
			// explicit stores
			inPlace := oldC
			freshC := Fresh("append!fresh", srt.Elem)
			q := BoundVar("j", SInt)
			c.addFact(Forall([]*Term{q}, Implies(And(Le(Num(0), q), Lt(q, s.Len)), Eq(Select(freshC, q), Select(oldC, SliceIdx(s.Off, q))))))
			for j := int64(0); j < n.Val.Int64(); j++ {
				v := srcArr(l, Num(j))
				inPlace = Store(inPlace, Add(Add(s.Off, s.Len), Num(j)), v)
				freshC = Store(freshC, Add(s.Len, Num(j)), v)
			}
			// write both alternatives
			a1 := Store(arr, s.X, inPlace)
			a2 := Store(arr, fresh, freshC)
			st.heapSet(key, Ite(fits, a1, a2))
			continue
		}
		// two alternatives, each defined element-wise by facts triggered on reads of the new content
		_ = newC
		ci := Fresh("append!inplace", srt.Elem)
		cf := Fresh("append!fresh", srt.Elem)
		m := BoundVar("m", SInt)
		end := Add(s.Off, s.Len)
		c.addFact(ForallPat([]*Term{m}, Implies(Or(Lt(m, end), Le(Add(end, n), m)), Eq(Select(ci, m), Select(oldC, m))), Select(ci, m)))
		c.addFact(ForallPat([]*Term{m}, Implies(And(Le(end, m), Lt(m, Add(end, n))), Eq(Select(ci, m), srcArr(l, Sub(m, end)))), Select(ci, m)))
		c.addFact(ForallPat([]*Term{m}, Implies(And(Le(Num(0), m), Lt(m, s.Len)), Eq(Select(cf, m), Select(oldC, SliceIdx(s.Off, m)))), Select(cf, m)))
		c.addFact(ForallPat([]*Term{m}, Implies(And(Le(s.Len, m), Lt(m, Add(s.Len, n))), Eq(Select(cf, m), srcArr(l, Sub(m, s.Len)))), Select(cf, m)))
		st.heapSet(key, Ite(fits, Store(arr, s.X, ci), Store(arr, fresh, cf)))
	}
	if preBytes != nil {
		// as abstract byte strings: the result is the concatenation of the two operands
		post := st.heapGet("S:byte", SArr(SInt, SArr(SInt, SInt)))
		c.addFact(Eq(c.bytesVal(Select(post, resArr), resOff, newLen),
			c.bcat(c.bytesVal(Select(preBytes, s.X), s.Off, s.Len), c.bytesVal(Select(preBytes, t.X), t.Off, t.Len))))
	}
	return &Val{K: KSlice, T: s.T, X: resArr, Off: resOff, Len: newLen, Cap: resCap}
}

func (fr *Frame) copyOp(st *State, d, s *Val, sT types.Type) *Val {
	c := fr.C
	et := under(d.T).(*types.Slice).Elem()
	root := "S:" + tstr(et)
	var sl *Term
	var src func(l leaf, j *Term) *Term
	pre := st.clone()
	if s.K == KStr {
		sl = App("gstr.len", SInt, s.X)
		c.addFact(Le(Num(0), sl))
		bs := App("gstr.bytes", SArr(SInt, SInt), s.X)
		src = func(l leaf, j *Term) *Term { return Select(bs, j) }
	} else {
		sl = s.Len
		src = func(l leaf, j *Term) *Term {
			arr := pre.heapGet(heapKey(root, l.path), SArr(SInt, SArr(SInt, sortOf(l.t))))
			return Select(Select(arr, s.X), SliceIdx(s.Off, j))
		}
	}
	n := Ite(Le(d.Len, sl), d.Len, sl)
	if !n.IsConst() && d.Len.IsConst() {
		// the usual guard `if len(src) != N { panic }` puts len(src) == N on the path: the copy has a constant length
		if k := knownConst(st.R, sl, 0); k != nil && k.Cmp(d.Len.Val) >= 0 {
			n = d.Len
		}
	}
	for _, l := range sliceLeaves(et) {
		key := heapKey(root, l.path)
		srt := SArr(SInt, SArr(SInt, sortOf(l.t)))
		arr := st.heapGet(key, srt)
		oldC := Select(arr, d.X)
		if n.IsConst() && n.Val.IsInt64() && n.Val.Int64() <= 64 {
			nc := oldC
			for j := int64(0); j < n.Val.Int64(); j++ {
				nc = Store(nc, Add(d.Off, Num(j)), src(l, Num(j)))
			}
			st.heapSet(key, Store(arr, d.X, nc))
			continue
		}
		nc := Fresh("copy!content", srt.Elem)
		q := BoundVar("j", SInt)
		m2 := BoundVar("m", SInt)
		c.addFact(ForallPat([]*Term{m2}, Implies(And(Le(d.Off, m2), Lt(m2, Add(d.Off, n))), Eq(Select(nc, m2), src(l, Sub(m2, d.Off)))), Select(nc, m2)))
		c.addFact(ForallPat([]*Term{q}, Implies(Or(Lt(q, d.Off), Le(Add(d.Off, n), q)), Eq(Select(nc, q), Select(oldC, q))), Select(nc, q)))
		st.heapSet(key, Store(arr, d.X, nc))
	}
	if b, ok := under(et).(*types.Basic); ok && b.Kind() == types.Uint8 && s.K != KStr {
		// as abstract byte strings: a copy that fills the whole destination from a source of the same length makes the two equal
		preH := pre.heapGet("S:byte", SArr(SInt, SArr(SInt, SInt)))
		postH := st.heapGet("S:byte", SArr(SInt, SArr(SInt, SInt)))
		c.addFact(Implies(Eq(d.Len, s.Len), Eq(c.bytesVal(Select(postH, d.X), d.Off, d.Len), c.bytesVal(Select(preH, s.X), s.Off, s.Len))))
	}
	return &Val{K: KInt, T: types.Typ[types.Int], X: n}
}

// ---------------------------------------------------------------------------------------------
// static write-set analysis (type based), used to havoc only what a loop body may write

type writeSet struct {
	all       bool
	prefixes  map[string]bool
	freshOnly map[string]bool // still true => only objects allocated inside were written
	cells     map[*ssa.Alloc]bool
	why       string
}

func newWriteSet() *writeSet {
	return &writeSet{prefixes: map[string]bool{}, freshOnly: map[string]bool{}, cells: map[*ssa.Alloc]bool{}}
}

func (w *writeSet) add(prefix string, fresh bool) {
	if !w.prefixes[prefix] {
		w.prefixes[prefix] = true
		w.freshOnly[prefix] = fresh
		return
	}
	if !fresh {
		w.freshOnly[prefix] = false
	}
}

func typeLeafPrefixes(root string, t types.Type) []string {
	return []string{root}
}

// addrPrefix computes the heap key prefix written by a store through addr, and whether the root object is allocated at `in`.
func addrPrefix(addr ssa.Value, inBody func(ssa.Instruction) bool) (prefix string, fresh bool, cell *ssa.Alloc, ok bool) {
	path := ""
	v := addr
	for i := 0; i < 32; i++ {
		switch x := v.(type) {
		case *ssa.FieldAddr:
			st := under(x.X.Type().(*types.Pointer).Elem()).(*types.Struct)
			path = "." + st.Field(x.Field).Name() + path
			v = x.X
			continue
		case *ssa.IndexAddr:
			switch bt := under(x.X.Type()).(type) {
			case *types.Slice:
				fresh := false
				if ms, isMs := x.X.(*ssa.MakeSlice); isMs && inBody(ms) {
					fresh = true
				}
				if sl, isSl := x.X.(*ssa.Slice); isSl {
					if al, isAl := sl.X.(*ssa.Alloc); isAl && al.Heap && inBody(al) {
						fresh = true
					}
				}
				return "S:" + tstr(bt.Elem()) + path, fresh, nil, true
			case *types.Pointer:
				// pointer to array: element of array object or array leaf
				if al, isAl := x.X.(*ssa.Alloc); isAl {
					if !al.Heap {
						return "", false, al, true
					}
					arr := under(bt.Elem()).(*types.Array)
					return "S:" + tstr(arr.Elem()) + path, inBody(al), nil, true
				}
				v = x.X
				// array leaf inside an object: the leaf key itself
				continue
			}
			return "", false, nil, false
		case *ssa.Alloc:
			if !x.Heap {
				return "", false, x, true
			}
			return rootKey(x.Type().(*types.Pointer).Elem()) + path, inBody(x), nil, true
		case *ssa.Global:
			name := strings.TrimPrefix(x.Pkg.Pkg.Path()+"."+x.Name(), modPath+"/")
			return "G:" + name + path, false, nil, true
		default:
			pt, isP := under(v.Type()).(*types.Pointer)
			if !isP {
				return "", false, nil, false
			}
			return rootKey(pt.Elem()) + path, false, nil, true
		}
	}
	return "", false, nil, false
}

func (c *Ctx) scanWrites(blocks []*ssa.BasicBlock, w *writeSet, depth int, seen map[*ssa.Function]bool) {
	inBody := func(ins ssa.Instruction) bool {
		for _, b := range blocks {
			if ins.Block() == b {
				return true
			}
		}
		return false
	}
	for _, b := range blocks {
		for _, ins := range b.Instrs {
			// (no early exit when w.all is set: the local cells written by the remaining instructions must still be found)
			switch x := ins.(type) {
			case *ssa.Store:
				if al, ok := x.Addr.(*ssa.Alloc); ok && loopSharedArray(al) {
					w.add("S:"+tstr(under(al.Type().(*types.Pointer).Elem()).(*types.Array).Elem()), false)
				}
				p, fresh, cell, ok := addrPrefix(x.Addr, inBody)
				if !ok {
					w.all = true
					continue
				}
				if cell != nil {
					w.cells[cell] = true
				} else {
					w.add(p, fresh)
				}
			case *ssa.Alloc:
				if x.Heap {
					w.add(rootKey(x.Type().(*types.Pointer).Elem()), true)
					if isBigIntPtr(x.Type()) {
						w.add("bigval", true)
					}
				}
			case *ssa.MakeSlice:
				w.add("S:"+tstr(under(x.Type()).(*types.Slice).Elem()), true)
			case *ssa.MakeMap:
				w.add("M:"+tstr(x.Type()), true)
			case *ssa.MapUpdate:
				w.add("M:"+tstr(x.Map.Type()), false)
			case *ssa.Range:
				if _, isMap := under(x.X.Type()).(*types.Map); isMap {
					w.add("M:"+tstr(x.X.Type())+"#visited", false)
				}
			case *ssa.Next:
				if r, ok := x.Iter.(*ssa.Range); ok {
					if _, isMap := under(r.X.Type()).(*types.Map); isMap {
						w.add("M:"+tstr(r.X.Type())+"#visited", false)
					}
				}
			case *ssa.Slice:
				if pt, ok := under(x.X.Type()).(*types.Pointer); ok {
					if arr, ok := under(pt.Elem()).(*types.Array); ok {
						w.add("S:"+tstr(arr.Elem()), true)
					}
				}
			case *ssa.Convert:
				if kindOf(x.X.Type()) == KStr && kindOf(x.Type()) == KSlice {
					w.add("S:"+tstr(under(x.Type()).(*types.Slice).Elem()), true)
				}
			case *ssa.Go, *ssa.Send, *ssa.Select:
				w.all = true
				if w.why == "" {
					w.why = "go/send/select"
				}
			case *ssa.Defer:
				// the deferred call runs when the function returns: its writes are writes of the body
				c.scanCallWrites(&x.Call, w, depth, seen)
			case *ssa.UnOp:
				if x.Op == token.ARROW {
					w.all = true
				}
			case *ssa.Call:
				// copy(a[:], src) into an array allocated inside the scanned body writes a fresh object only
				if b, ok := x.Call.Value.(*ssa.Builtin); ok && b.Name() == "copy" {
					if sl, ok := x.Call.Args[0].(*ssa.Slice); ok {
						if pt, ok := under(sl.X.Type()).(*types.Pointer); ok {
							if at, ok := under(pt.Elem()).(*types.Array); ok {
								freshDst := false
								switch a := sl.X.(type) {
								case *ssa.Alloc:
									// a local array (cell) is sliced into a fresh backing array (sliceOp); a heap array allocated
									// in the body is a fresh object
									freshDst = !a.Heap || inBody(a)
									if !a.Heap {
										w.cells[a] = true // the copy is written back into the cell
									}
								case *ssa.FieldAddr:
									// array inside a struct: sliced into a fresh backing array, then written back through the
									// field (that store is accounted for below)
									freshDst = true
									if p, fr2, cell, ok := addrPrefix(a, inBody); ok {
										if cell != nil {
											w.cells[cell] = true
										} else {
											w.add(p, fr2)
										}
									} else {
										w.all = true
									}
								}
								if freshDst {
									w.add("S:"+tstr(at.Elem()), true)
									continue
								}
							}
						}
					}
				}
				c.scanCallWrites(&x.Call, w, depth, seen)
			}
		}
	}
}

func (c *Ctx) scanCallWrites(cc *ssa.CallCommon, w *writeSet, depth int, seen map[*ssa.Function]bool) {
	if b, ok := cc.Value.(*ssa.Builtin); ok {
		switch b.Name() {
		case "append", "copy":
			if sl, ok := under(cc.Args[0].Type()).(*types.Slice); ok {
				w.add("S:"+tstr(sl.Elem()), false)
			}
		case "delete":
			w.add("M:"+tstr(cc.Args[0].Type()), false)
		case "len", "cap", "min", "max", "ssa:deferstack", "ssa:wrapnilchk", "print", "println", "recover":
		default:
			w.all = true
			if w.why == "" {
				w.why = "builtin " + b.Name()
			}
		}
		return
	}
	name := callName(cc)
	if ws, ok := libWrites[name]; ok {
		for _, p := range ws {
			w.add(p, false)
		}
		return
	}
	if ai, ok := outPtrFns[name]; ok {
		if mi, ok := cc.Args[ai].(*ssa.MakeInterface); ok {
			if pt, ok := under(mi.X.Type()).(*types.Pointer); ok {
				w.add(rootKey(pt.Elem()), false)
				return
			}
		}
		w.all = true
		return
	}
	if _, ok := libModels[name]; ok {
		return // modelled and writes nothing
	}
	var con *Contract
	callee := cc.StaticCallee()
	if callee != nil {
		con = c.contractFor(callee)
	} else if cc.IsInvoke() {
		con = c.ifaceContract(cc)
	} else {
		con = c.funcTypeContract(cc)
	}
	if con != nil && (!con.Inline || seen[callee]) {
		if !con.ModSet {
			w.all = true
			return
		}
		for _, m := range con.Modifies {
			ps, ok := c.modPrefixes(con, callee, cc, m)
			if !ok {
				w.all = true
				return
			}
			for _, p := range ps {
				w.add(p, false)
			}
		}
		return
	}
	if callee != nil && c.inlinable(callee) && depth < maxInlineDepth && !seen[callee] {
		seen[callee] = true
		sub := newWriteSet()
		c.scanWrites(callee.Blocks, sub, depth+1, seen)
		delete(seen, callee) // recursion stack, not a visited set
		if sub.all {
			w.all = true
			if w.why == "" {
				w.why = sub.why
			}
			return
		}
		for p := range sub.prefixes {
			// an object allocated inside the callee is allocated inside whatever body the call sits in
			w.add(p, sub.freshOnly[p])
		}
		return
	}
	w.all = true
	if w.why == "" {
		w.why = name
	}
}

// modPrefixes maps a modifies entry to heap key prefixes using static types only.
func isRawPrefix(m string) bool {
	return strings.HasPrefix(m, "T:") || strings.HasPrefix(m, "S:") || strings.HasPrefix(m, "M:") || strings.HasPrefix(m, "MF:") || m == "bigval"
}

func (c *Ctx) modPrefixes(con *Contract, callee *ssa.Function, cc *ssa.CallCommon, m string) ([]string, bool) {
	if m == "*" {
		return nil, false
	}
	if isRawPrefix(m) {
		return []string{m}, true
	}
	expr := strings.TrimSuffix(strings.TrimSuffix(m, ".*"), "[*]")
	e, err := ParseSpec(expr)
	if err != nil {
		return nil, false
	}
	// resolve the static type of the root identifier
	var root *SExpr = e
	var sels []string
	for root.Kind == "sel" {
		sels = append([]string{root.Name}, sels...)
		root = root.Args[0]
	}
	if root.Kind != "id" {
		return nil, false
	}
	var t types.Type
	sig := cc.Signature()
	if callee != nil {
		for _, p := range callee.Params {
			if p.Name() == root.Name {
				t = p.Type()
			}
		}
		if root.Name == "self" && callee.Signature.Recv() != nil {
			t = callee.Params[0].Type()
		}
		for i, n := range con.Params {
			if n == root.Name && i < len(callee.Params) {
				t = callee.Params[i].Type()
			}
		}
	} else {
		if root.Name == "self" {
			t = cc.Value.Type()
		}
		for i := 0; i < sig.Params().Len(); i++ {
			if sig.Params().At(i).Name() == root.Name {
				t = sig.Params().At(i).Type()
			}
		}
		for i, n := range con.Params {
			if n == root.Name && i >= 1 && i-1 < sig.Params().Len() {
				t = sig.Params().At(i - 1).Type()
			}
		}
	}
	if t == nil {
		return nil, false
	}
	// model fields
	if len(sels) == 1 {
		if mf := c.modelField(t, sels[0]); mf != nil {
			return []string{modelKey(mf)}, true
		}
	}
	if strings.HasSuffix(m, ".*") && len(sels) == 0 {
		var out []string
		if _, isI := under(t).(*types.Interface); isI {
			for _, mf := range c.modelFieldsOf(t) {
				out = append(out, modelKey(mf))
			}
			return out, true
		}
		if p, ok := under(t).(*types.Pointer); ok {
			out = append(out, rootKey(p.Elem()))
			if isBigIntPtr(t) {
				out = append(out, "bigval")
			}
			for _, mf := range c.modelFieldsOf(t) {
				out = append(out, modelKey(mf))
			}
			return out, true
		}
		return nil, false
	}
	if strings.HasSuffix(m, "[*]") && len(sels) == 0 {
		if sl, ok := under(t).(*types.Slice); ok {
			return []string{"S:" + tstr(sl.Elem())}, true
		}
		return nil, false
	}
	// x.f.g.* : everything of the object the selector chain points to
	if strings.HasSuffix(m, ".*") && len(sels) > 0 {
		cur := t
		for _, sname := range sels {
			if p, ok := under(cur).(*types.Pointer); ok {
				cur = p.Elem()
			}
			stt, ok := under(cur).(*types.Struct)
			if !ok {
				return nil, false
			}
			found := false
			for i := 0; i < stt.NumFields(); i++ {
				if stt.Field(i).Name() == sname {
					cur = stt.Field(i).Type()
					found = true
				}
			}
			if !found {
				return nil, false
			}
		}
		var out []string
		if p, ok := under(cur).(*types.Pointer); ok {
			out = append(out, rootKey(p.Elem()))
			if isBigIntPtr(cur) {
				out = append(out, "bigval")
			}
		}
		for _, mf := range c.modelFieldsOf(cur) {
			out = append(out, modelKey(mf))
		}
		return out, len(out) > 0
	}
	// follow selectors through pointer-to-struct types
	path := ""
	cur := t
	p, ok := under(cur).(*types.Pointer)
	if !ok {
		return nil, false
	}
	rootK := rootKey(p.Elem())
	cur = p.Elem()
	for si, s := range sels {
		if si == len(sels)-1 {
			if mf := c.modelField(cur, s); mf != nil {
				return []string{modelKey(mf)}, true
			}
		}
		if pp, isP := under(cur).(*types.Pointer); isP {
			cur = pp.Elem()
		}
		stt, ok := under(cur).(*types.Struct)
		if !ok {
			return nil, false
		}
		found := false
		for i := 0; i < stt.NumFields(); i++ {
			if stt.Field(i).Name() == s {
				path += "." + s
				cur = stt.Field(i).Type()
				found = true
			}
		}
		if !found {
			return nil, false
		}
	}
	return []string{rootK + path}, true
}

// modPrefixesOwn maps a modifies entry of the function being verified to heap key prefixes (by static types).
func (c *Ctx) modPrefixesOwn(fr *Frame, m string) ([]string, bool) {
	cc := &ssa.CallCommon{Value: fr.Fn}
	return c.modPrefixes(fr.Con, fr.Fn, cc, m)
}

func (c *Ctx) callIsPure(cc *ssa.CallCommon) bool {
	w := newWriteSet()
	c.scanCallWrites(cc, w, 0, map[*ssa.Function]bool{})
	return !w.all && len(w.prefixes) == 0
}


// knownConst looks for a top-level conjunct `t == const` in a path condition.
func knownConst(r, t *Term, depth int) *big.Int {
	if r == nil || depth > 40 {
		return nil
	}
	switch r.Op {
	case "and":
		for _, a := range r.Args {
			if k := knownConst(a, t, depth+1); k != nil {
				return k
			}
		}
	case "=":
		if len(r.Args) == 2 {
			if r.Args[0] == t && r.Args[1].IsConst() {
				return r.Args[1].Val
			}
			if r.Args[1] == t && r.Args[0].IsConst() {
				return r.Args[0].Val
			}
		}
	}
	return nil
}

// deferAtCalls: a call inside a helper that is executed inline on behalf of the function under contract. If that function's
// contract has an at-call clause for this callee, the assertion is evaluated here (over the top function's variables and this
// call's arguments) and kept aside; it is used only if the top function itself never calls the callee - the case of a call
// that an edit moved into a helper - instead of reporting the clause as having no call site.
func (fr *Frame) deferAtCalls(st *State, cc *ssa.CallCommon, name string, args []*Val, pos token.Pos) {
	var tf *Frame
	for f := fr.Parent; f != nil; f = f.Parent {
		if f.Top {
			tf = f
		}
	}
	if tf == nil || tf.Con == nil || len(tf.Con.AtCalls) == 0 {
		return
	}
	c := fr.C
	for i, ac := range tf.Con.AtCalls {
		if ac.Ordinal != 0 || !(strings.HasSuffix(name, "."+ac.Callee) || strings.HasSuffix(name, ")."+ac.Callee) || name == ac.Callee) {
			continue
		}
		func() {
			defer func() {
				tf.midEval = false
				recover() // a clause that cannot be evaluated here (a variable out of scope) is simply not deferred
			}()
			tf.midEval = true
			aenv := map[string]*Val{}
			for k, v := range tf.envTop {
				aenv[k] = v
			}
			for ai, av := range args {
				aenv[fmt.Sprintf("arg%d", ai)] = av
			}
			g := tf.evalBool(ac.Clause.Expr, st, tf.Entry, aenv)
			ob := &Obligation{Name: c.curFunc + "#at-call/" + ac.Callee + "." + clauseName("", ac.Clause, i) + "@via:" + fr.Fn.Name(), Kind: "at-call", Func: c.curFunc,
				Hyps: append([]*Term(nil), globalFacts...), Reach: st.R, Goal: g, Desc: "at every call to " + ac.Callee + " (reached through the helper " + fr.Fn.Name() + "): " + ac.Clause.Src, Inputs: c.Inputs, Fn: tf.Fn, Con: tf.Con}
			if pos.IsValid() {
				p := c.P.Fset.Position(pos)
				ob.Pos = fmt.Sprintf("%s:%d", strings.TrimPrefix(p.Filename, c.P.RepoDir+"/"), p.Line)
			}
			if tf.deferredAt == nil {
				tf.deferredAt = map[int][]*Obligation{}
			}
			tf.deferredAt[i] = append(tf.deferredAt[i], ob)
		}()
	}
}

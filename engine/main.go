package main

import (
	"encoding/json"
	"flag"
	"fmt"
	"os"
	"path/filepath"
	"sort"
	"strconv"
	"strings"
	"time"
)

type CheckCfg struct {
	Property      string            `json:"property"`
	Functions     []string          `json:"functions"`
	Lemmas        []string          `json:"lemmas"`
	ThoroughFuncs []string          `json:"thorough_functions"`
	ThoroughLemmas []string         `json:"thorough_lemmas"`
	NotClaimed    map[string]string `json:"not_discharged_not_claimed"` // obligation name (or prefix ending in *) -> reason
	PaperSteps    []string          `json:"paper_steps"`
	Assumptions   []string          `json:"assumptions"`
	MinObligations int              `json:"min_obligations"`
	ClaimOnly     map[string][]string `json:"claim_only"` // function name -> obligation-name fragments; other obligations of that function are generated but not claimed
	ClaimOnlyWhy  string              `json:"claim_only_reason"`
	ExpectedUnreachable map[string]string `json:"expected_unreachable"` // return points the contracts make unreachable on the unchanged tree -> why
	Bounded       []BoundedCfg      `json:"bounded"`
}

type BoundedCfg struct {
	Name  string `json:"name"`
	Pkg   string `json:"pkg"`   // package dir relative to repo
	File  string `json:"file"`  // test source under /verif/bounded
	Run   string `json:"run"`   // -run pattern
	Bound string `json:"bound"` // stated bound
	Tier  string `json:"tier"`  // quick|thorough
}

type KnownFinding struct {
	Property   string `json:"property"`
	Obligation string `json:"obligation"`
	Witness    string `json:"witness"` // spec expression over the function's parameters (entry state)
	Site       string `json:"site,omitempty"` // source text of the return statement / call the obligation sits on: lets the entry follow its site when return or call ordinals shift
	What       string `json:"what"`
	Status     string `json:"status"` // "open" | "fixed"
	Commit     string `json:"commit,omitempty"`
}

var knownFindings []KnownFinding

func loadKnown(verif string) {
	b, err := os.ReadFile(filepath.Join(verif, "known_findings.json"))
	if err != nil {
		return
	}
	var f struct {
		Findings []KnownFinding `json:"findings"`
	}
	if err := json.Unmarshal(b, &f); err != nil {
		fmt.Println("UNDECIDED known_findings.json:", err)
		os.Exit(2)
	}
	knownFindings = f.Findings
}

// evalWitnesses evaluates the witness predicates of open known findings for obligations of function `name`.
func (c *Ctx) evalWitnesses(fr *Frame, name string, st *State, env map[string]*Val) {
	if c.knownWitness == nil {
		c.knownWitness = map[string][]*Term{}
	}
	for _, k := range knownFindings {
		if k.Status == "fixed" || !strings.HasPrefix(k.Obligation, name+"#") {
			continue
		}
		e, err := ParseSpec(k.Witness)
		if err != nil {
			panic(specError{"known finding witness: " + err.Error()})
		}
		w := fr.evalBool(e, st, st, env)
		c.knownWitness[k.Obligation] = append(c.knownWitness[k.Obligation], w)
	}
}

func splitKey(s string) (string, string) {
	i := strings.Index(s, ":")
	if i < 0 {
		return "", s
	}
	pkg := s[:i]
	if pkg == "." || pkg == "" {
		return modPath, s[i+1:]
	}
	if strings.Contains(pkg, ".") && !strings.HasPrefix(pkg, modPath) { // stdlib or third party full path
		return pkg, s[i+1:]
	}
	return modPath + "/" + pkg, s[i+1:]
}

func main() {
	if len(os.Args) < 2 {
		fmt.Println("usage: gvc check <ID> [--tier quick|thorough] | gvc func <pkg:Key> | gvc replay <file>")
		os.Exit(2)
	}
	switch os.Args[1] {
	case "check":
		os.Exit(cmdCheck(os.Args[2:]))
	case "func", "lemma":
		os.Exit(cmdFunc(os.Args[1], os.Args[2:]))
	case "replay":
		os.Exit(cmdReplay(os.Args[2:]))
	case "benign":
		os.Exit(cmdBenign(os.Args[2:]))
	case "locals-table":
		os.Exit(cmdLocalsTable(os.Args[2:]))
	case "ssa":
		P, err := LoadProgram("/repo", []string{"./..."})
		if err != nil {
			fmt.Println(err)
			os.Exit(2)
		}
		pkg, key := splitKey(os.Args[2])
		f := P.LookupFunc(pkg, key)
		if f == nil {
			fmt.Println("not found")
			os.Exit(2)
		}
		f.WriteTo(os.Stdout)
	}
}

func setup(repo, verif string) (*Program, *Specs, float64) {
	t0 := time.Now()
	P, err := LoadProgram(repo, []string{"./..."})
	if err != nil {
		fmt.Println("UNDECIDED load:", err)
		os.Exit(2)
	}
	S, err := LoadAllSpecs(repo, filepath.Join(verif, "specs"))
	if err != nil {
		fmt.Println("UNDECIDED specs:", err)
		os.Exit(2)
	}
	loadKnown(verif)
	loadLocalsTable(verif)
	return P, S, time.Since(t0).Seconds()
}

func cmdFunc(kind string, args []string) int {
	fs := flag.NewFlagSet("func", flag.ExitOnError)
	repo := fs.String("repo", "/repo", "")
	verif := fs.String("verif", "/verif", "")
	timeout := fs.Int("timeout", 20, "")
	keep := fs.Bool("keep", true, "")
	verbose := fs.Bool("v", false, "")
	fs.Parse(args[1:])
	P, S, _ := setup(*repo, *verif)
	c := NewCtx(P, S)
	var rep *FuncReport
	if kind == "lemma" {
		rep = c.VerifyLemma(args[0])
	} else {
		pkg, key := splitKey(args[0])
		rep = c.VerifyFunc(pkg, key)
	}
	fmt.Printf("%s: %d obligations, error=%q\n", rep.Name, rep.Obligations, rep.Error)
	dir := filepath.Join(os.TempDir(), "gvc-func")
	os.RemoveAll(dir)
	solveAll(c.Obs, solveOpts{TimeoutS: *timeout, Dir: dir, Workers: 8, KeepAll: *keep})
	bad := 0
	for _, ob := range c.Obs {
		ok := (ob.Result == "unsat" && !ob.Cover) || (ob.Result == "sat" && ob.Cover)
		mark := "ok  "
		if !ok {
			mark = "FAIL"
			bad++
		}
		fmt.Printf("%s %-8s %-8s %6dms %s  %s\n", mark, ob.Result, ob.Solver, ob.Ms, ob.Name, ob.Pos)
		if !ok || *verbose {
			if ob.Desc != "" {
				fmt.Println("       ", ob.Desc)
			}
			if len(ob.Model) > 0 {
				fmt.Println("        model:", fmtModel(ob.Model))
			}
		}
	}
	for _, n := range c.Notes {
		fmt.Println("note:", n)
	}
	fmt.Println("abstracted calls:", sortedKeys(c.Abstracted))
	fmt.Println("inlined:", sortedKeys(c.InlinedFns))
	if bad > 0 {
		return 1
	}
	return 0
}

func fmtModel(m map[string]string) string {
	var ks []string
	for k := range m {
		ks = append(ks, k)
	}
	sort.Strings(ks)
	var sb strings.Builder
	n := 0
	for _, k := range ks {
		if m[k] == "0" && strings.Contains(k, "[") {
			continue
		}
		if n++; n > 40 {
			sb.WriteString("…")
			break
		}
		sb.WriteString(k + "=" + m[k] + " ")
	}
	return sb.String()
}

func envInt(name string, def int) int {
	if v := os.Getenv(name); v != "" {
		if i, err := strconv.Atoi(v); err == nil {
			return i
		}
	}
	return def
}

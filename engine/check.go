package main

// The per-property check: verify functions and lemmas, classify results, replay, evidence.

import (
	"encoding/json"
	"flag"
	"fmt"
	"os"
	"os/exec"
	"path/filepath"
	"sort"
	"strings"
	"time"
)

type ReplayFile struct {
	Property   string            `json:"property"`
	Obligation string            `json:"obligation"`
	Function   string            `json:"function"`
	Kind       string            `json:"kind"`
	Clause     string            `json:"clause"`
	Pos        string            `json:"pos"`
	Solver     string            `json:"solver"`
	Result     string            `json:"solver_result"`
	Model      map[string]string `json:"model,omitempty"`
	SolverOut  string            `json:"solver_output"`
	PkgDir     string            `json:"pkg_dir,omitempty"`
	TestSrc    string            `json:"test_source,omitempty"`
	Replayed   string            `json:"replayed"` // reproduced | not-reproduced | no-failing-input-found
	ReplayOut  string            `json:"replay_output,omitempty"`
	Smt2       string            `json:"smt2,omitempty"`
}

type obEvidence struct {
	Name   string `json:"name"`
	Kind   string `json:"kind"`
	Solver string `json:"solver"`
	Result string `json:"result"`
	Ms     int64  `json:"ms"`
	Pos    string `json:"pos,omitempty"`
}

// siteKey: the obligation's name with its return / call / instruction ordinal replaced by the text of the source line it sits
// on ("F#safe/div0@site:<line>", "F#cover/site:<line>"): configuration entries written this way follow their statement when
// an unrelated edit shifts the ordinals.
func siteKey(ob *Obligation, repo string) string {
	text := siteText(ob, repo)
	if text == "" {
		return ""
	}
	if i := strings.LastIndex(ob.Name, "@"); i >= 0 {
		return ob.Name[:i+1] + "site:" + text
	}
	if i := strings.LastIndex(ob.Name, "#cover/ret"); i >= 0 {
		return ob.Name[:i+7] + "site:" + text
	}
	return ""
}

func notClaimedOb(cfg *CheckCfg, ob *Obligation, repo string) (string, bool) {
	if why, ok := notClaimed(cfg, ob.Name); ok {
		return why, ok
	}
	if k := siteKey(ob, repo); k != "" {
		if why, ok := cfg.NotClaimed[k]; ok {
			return why, true
		}
	}
	return "", false
}

func notClaimed(cfg *CheckCfg, name string) (string, bool) {
	// functions for which only some kinds of obligation are claimed (e.g. a division sweep over large bodies)
	if i := strings.Index(name, "#"); i > 0 {
		if frags, ok := cfg.ClaimOnly[name[:i]]; ok {
			claimed := false
			for _, f := range frags {
				if strings.Contains(name[i:], f) {
					claimed = true
				}
			}
			if !claimed {
				return cfg.ClaimOnlyWhy, true
			}
		}
	}
	for k, why := range cfg.NotClaimed {
		if k == name {
			return why, true
		}
		if strings.HasSuffix(k, "*") && strings.HasPrefix(name, strings.TrimSuffix(k, "*")) {
			return why, true
		}
	}
	return "", false
}

func cmdCheck(args []string) int {
	if len(args) < 1 {
		fmt.Println("usage: gvc check <ID> [--tier quick|thorough]")
		return 2
	}
	id := args[0]
	fs := flag.NewFlagSet("check", flag.ExitOnError)
	repo := fs.String("repo", "/repo", "")
	verif := fs.String("verif", "/verif", "")
	tier := fs.String("tier", "", "")
	fs.Parse(args[1:])
	if *tier == "" {
		*tier = os.Getenv("VERIF_TIER")
	}
	if *tier == "" {
		*tier = "quick"
	}
	seed := envInt("VERIF_SEED", 0)
	t0 := time.Now()
	var cfg CheckCfg
	b, err := os.ReadFile(filepath.Join(*verif, "checks", id+".json"))
	if err != nil {
		fmt.Println("UNDECIDED no check config:", err)
		return 2
	}
	if err := json.Unmarshal(b, &cfg); err != nil {
		fmt.Println("UNDECIDED check config:", err)
		return 2
	}
	gitBefore := gitStatus(*repo)
	P, S, loadS := setup(*repo, *verif)
	c := NewCtx(P, S)
	funcs := append([]string(nil), cfg.Functions...)
	lemmas := append([]string(nil), cfg.Lemmas...)
	if *tier == "thorough" {
		funcs = append(funcs, cfg.ThoroughFuncs...)
		lemmas = append(lemmas, cfg.ThoroughLemmas...)
	}
	var reps []*FuncReport
	undecided := 0
	tgen := time.Now()
	for _, f := range funcs {
		pkg, key := splitKey(f)
		rep := c.VerifyFunc(pkg, key)
		reps = append(reps, rep)
		if rep.Error != "" {
			fmt.Printf("UNDECIDED %s: %s\n", rep.Name, rep.Error)
			undecided++
		}
	}
	for _, l := range lemmas {
		rep := c.VerifyLemma(l)
		reps = append(reps, rep)
		if rep.Error != "" {
			fmt.Printf("UNDECIDED %s: %s\n", rep.Name, rep.Error)
			undecided++
		}
	}
	genS := time.Since(tgen).Seconds()
	timeout := 20
	if *tier == "thorough" {
		timeout = 120
	}
	smtDir, _ := os.MkdirTemp("", "gvc-smt-"+id)
	defer os.RemoveAll(smtDir)
	tsolve := time.Now()
	// obligations that a claim_only entry excludes are not sent to the solvers (they are counted in the evidence as generated,
	// not claimed, not decided)
	var toSolve []*Obligation
	for _, ob := range c.Obs {
		if why, skip := notClaimedOb(&cfg, ob, *repo); skip && why == cfg.ClaimOnlyWhy && cfg.ClaimOnlyWhy != "" {
			ob.Result = "not-attempted"
			continue
		}
		toSolve = append(toSolve, ob)
	}
	solveAll(toSolve, solveOpts{TimeoutS: timeout, Seed: seed, Dir: smtDir, Workers: 10, CrossCheck: *tier == "thorough", KeepAll: *tier == "thorough"})
	solveS := time.Since(tsolve).Seconds()

	replayDir := filepath.Join(*verif, "replays", id)
	os.RemoveAll(replayDir)
	var obsEv []obEvidence
	nOb, nDis, nViol, nCover, nVac, nCoverUnknown, nCross := 0, 0, 0, 0, 0, 0, 0
	solverMs := int64(0)
	var knownHit []string
	kfUsed := map[string]bool{}
	var deadReturns []string
	notClaimedList := map[string]string{}
	claimOnlySkipped, claimOnlyOpen := map[string]int{}, map[string]int{}
	bySolver := map[string]int{}
	var samples []interface{}
	for _, ob := range c.Obs {
		solverMs += ob.Ms
		if ob.Cover {
			nCover++
			if ob.Result != "unsat" && ob.Result != "sat" {
				nCoverUnknown++
			}
			if ob.Result == "unsat" {
				if _, skip := notClaimedOb(&cfg, ob, *repo); !skip {
					if strings.HasSuffix(ob.Name, "#cover/requires") {
						fmt.Printf("UNDECIDED vacuous: %s: the function's requires clauses are contradictory\n", ob.Name)
						nVac++
					} else {
						deadReturns = append(deadReturns, ob.Name)
						_, exp := cfg.ExpectedUnreachable[ob.Name]
						if k := siteKey(ob, *repo); !exp && k != "" {
							_, exp = cfg.ExpectedUnreachable[k]
						}
						if !exp {
							// a return point that the facts at hand exclude: every postcondition there would hold vacuously
							fmt.Printf("UNDECIDED vacuous: %s: this return is unreachable under the contracts in force (not listed in expected_unreachable)\n", ob.Name)
							nVac++
						}
					}
				}
			}
			continue
		}
		if why, skip := notClaimedOb(&cfg, ob, *repo); skip {
			if why == cfg.ClaimOnlyWhy && cfg.ClaimOnlyWhy != "" {
				// aggregated: one line per function
				fn := ob.Name
				if i := strings.Index(fn, "#"); i > 0 {
					fn = fn[:i]
				}
				claimOnlySkipped[fn]++
				if ob.Result != "unsat" {
					claimOnlyOpen[fn]++
				}
				continue
			}
			notClaimedList[ob.Name] = why + " [result on this run: " + ob.Result + "]"
			continue
		}
		nOb++
		obsEv = append(obsEv, obEvidence{ob.Name, ob.Kind, ob.Solver, ob.Result, ob.Ms, ob.Pos})
		if ob.Result == "disagreement" {
			fmt.Printf("UNDECIDED solver disagreement on %s: %s\n", ob.Name, ob.Solver)
			undecided++
			continue
		}
		if ob.Result == "unsat" {
			nDis++
			bySolver[ob.Solver]++
			if len(ob.CrossChecked) > 1 {
				nCross++
			}
			if len(samples) < 3 && ob.Solver != "simplifier" {
				samples = append(samples, map[string]string{"obligation": ob.Name, "goal": truncate(ob.Goal.String(), 600), "clause": ob.Desc})
			}
			continue
		}
		// failed obligation
		kfName := ob.Name
		if len(c.knownWitness[kfName]) == 0 {
			kfName = siteMatch(ob, *repo, kfUsed)
		}
		if kfName != "" {
			kfUsed[kfName] = true
		}
		if ws := c.knownWitness[kfName]; len(ws) > 0 && (ob.Result == "sat" || ob.Result == "unknown" || ob.Result == "timeout") {
			// re-ask with the known witnesses excluded
			ob2 := *ob
			ob2.Name = ob.Name + "-minus-known"
			ob2.Result, ob2.Solver = "", ""
			for _, w := range ws {
				ob2.Hyps = append(append([]*Term(nil), ob2.Hyps...), Not(w))
			}
			ob2.prepare(solveOpts{Dir: smtDir})
			ob2.solve(solveOpts{TimeoutS: timeout, Seed: seed, Dir: smtDir})
			solverMs += ob2.Ms
			if ob2.Result == "unsat" {
				for _, k := range knownFindings {
					if k.Obligation == kfName && k.Status != "fixed" {
						fmt.Printf("KNOWN-FINDING: property=%s %s (obligation %s fails only for the recorded witness: %s)\n", id, k.What, ob.Name, k.Witness)
						knownHit = append(knownHit, ob.Name)
					}
				}
				nDis++ // discharged outside the recorded witness
				bySolver[ob2.Solver]++
				obsEv[len(obsEv)-1].Result = "unsat-outside-known-finding"
				continue
			}
			ob = &ob2
		}
		nViol++
		rf := c.makeReplay(id, ob, *repo, smtDir)
		os.MkdirAll(replayDir, 0755)
		rpath := filepath.Join(replayDir, sanitize(ob.Name)+".json")
		jb, _ := json.MarshalIndent(rf, "", " ")
		os.WriteFile(rpath, jb, 0644)
		line := fmt.Sprintf("VIOLATION property=%s replay=%s obligation=%s result=%s", id, rpath, ob.Name, ob.Result)
		if rf.Replayed != "reproduced" {
			line += " no-failing-input-found"
		}
		fmt.Println(line)
	}
	// bounded stand-ins
	var boundedEv []map[string]interface{}
	for _, bc := range cfg.Bounded {
		if bc.Tier == "thorough" && *tier != "thorough" {
			continue
		}
		ok, out, secs := runBounded(*repo, *verif, bc)
		boundedEv = append(boundedEv, map[string]interface{}{"name": bc.Name, "bound": bc.Bound, "passed": ok, "wall_s": secs, "label": "bounded (not counted as proved)"})
		if !ok {
			nViol++
			os.MkdirAll(replayDir, 0755)
			rpath := filepath.Join(replayDir, "bounded-"+sanitize(bc.Name)+".json")
			jb, _ := json.MarshalIndent(map[string]string{"property": id, "bounded": bc.Name, "output": truncate(out, 8000), "pkg_dir": bc.Pkg, "file": bc.File, "run": bc.Run}, "", " ")
			os.WriteFile(rpath, jb, 0644)
			fmt.Printf("VIOLATION property=%s replay=%s bounded=%s\n", id, rpath, bc.Name)
		}
	}
	if nOb < cfg.MinObligations {
		fmt.Printf("UNDECIDED obligation count %d below the registered minimum %d (a contract stopped applying)\n", nOb, cfg.MinObligations)
		undecided++
	}
	if gitAfter := gitStatus(*repo); gitAfter != gitBefore {
		fmt.Println("UNDECIDED the check changed /repo's working tree")
		undecided++
	}
	// evidence
	var fnames []string
	enc := map[string]string{}
	for _, r := range reps {
		fnames = append(fnames, r.Name)
		enc[r.Name] = r.Encoding
	}
	if len(samples) == 0 {
		for _, ob := range c.Obs {
			if !ob.Cover && len(samples) < 3 {
				samples = append(samples, map[string]string{"obligation": ob.Name, "goal": truncate(ob.Goal.String(), 600), "clause": ob.Desc})
			}
		}
	}
	trusted := []string{
		"gvc: SSA-to-VC translation, heap/value model, library models (exercised by the must-fail corpus and replays, not proved)",
		"go/packages, go/types, go/ssa (x/tools v0.29.0) agree with the Go compiler on the verified subset",
		"SMT solvers: an unsat answer from z3 5.1.0, z3 4.8.12 or cvc5 1.0.3 is accepted",
	}
	assumptions := append([]string(nil), cfg.Assumptions...)
	assumptions = append(assumptions,
		"partial correctness: postconditions are proved for executions that return; run-time panics are only obligations in functions marked `safety`",
		"pointer parameters are roots of their own objects (no interior-pointer aliasing between parameters)",
		"package-level variables never stored outside init are constants; package-level *big.Int values are immutable",
		"len/cap of slices <= 2^62; heap cells hold values within their Go type's range")
	for _, l := range sortedKeys(c.AssumedLib) {
		assumptions = append(assumptions, "assumed library contract: "+l)
	}
	for _, l := range sortedKeys(c.Abstracted) {
		assumptions = append(assumptions, "abstracted call (result and heap havoced): "+l)
	}
	for _, n := range c.Notes {
		assumptions = append(assumptions, "note: "+n)
	}
	var trustedContracts []string
	for k := range c.UsedContracts {
		if con := S.Contracts[k]; con != nil && (con.Trusted || !contains(funcs, k)) {
			verified := false
			for _, f := range funcs {
				p, key := splitKey(f)
				if p+"."+key == k && !con.Trusted {
					verified = true
				}
			}
			if !verified {
				trustedContracts = append(trustedContracts, relPkg(k))
			}
		}
	}
	sort.Strings(trustedContracts)
	for _, tcn := range trustedContracts {
		assumptions = append(assumptions, "contract used at call sites but its body is not verified in this check: "+tcn)
	}
	wall := time.Since(t0).Seconds()
	ev := map[string]interface{}{
		"property_id": id, "tier": *tier, "seed": seed, "level": "proof", "wall_s": wall, "violations": nViol,
		"assumptions": assumptions,
		"coverage": map[string]interface{}{
			"obligations": nOb, "discharged": nDis,
			"checker_cmd":  fmt.Sprintf("bin/check %s --tier %s", id, *tier),
			"trusted_base": trusted,
			"samples":      samples,
			"functions_under_contract": fnames,
			"encoding": enc,
			"obligation_results": obsEv,
			"cross_checked": map[string]interface{}{"enabled": *tier == "thorough", "discharged_confirmed_by_a_second_solver_or_seed": nCross, "note": "thorough tier only: every unsat answer is re-asked to the other two solvers (15 s each) and to the same solver with another random seed; a sat answer from any of them makes the check UNDECIDED"},
			"discharged_by_solver": bySolver,
			"solver_ms_total": solverMs,
			"load_s": loadS, "generate_s": genS, "solve_s": solveS,
			"vacuity": map[string]interface{}{"cover_probes": nCover, "vacuous": nVac, "unreachable_points": deadReturns, "expected_unreachable": cfg.ExpectedUnreachable,
				"inconclusive": nCoverUnknown, "note": "a cover probe asks the solver for a model of the path to a return point; with quantified hypotheses the solvers often answer unknown: such a probe is inconclusive (not shown vacuous, not shown reachable)"},
			"inlined_functions": sortedKeys(c.InlinedFns),
			"effectively_constant_globals": sortedKeys(c.ConstGlobals),
			"bounded": boundedEv,
			"paper_steps": cfg.PaperSteps,
			"not_discharged_not_claimed": notClaimedList,
			"claim_only": map[string]interface{}{"reason": cfg.ClaimOnlyWhy, "claimed_fragments": cfg.ClaimOnly, "generated_not_claimed": claimOnlySkipped, "of_which_not_discharged": claimOnlyOpen},
			"known_findings_hit": knownHit,
			"contract_files": S.Files,
		},
	}
	os.MkdirAll(filepath.Join(*verif, "evidence"), 0755)
	jb, _ := json.MarshalIndent(ev, "", " ")
	os.WriteFile(filepath.Join(*verif, "evidence", id+".json"), jb, 0644)
	fmt.Printf("%s tier=%s: %d obligations, %d discharged, %d violations, %d known-finding hits, %d cover probes (%d vacuous, %d inconclusive), load %.1fs gen %.1fs solve %.1fs\n",
		id, *tier, nOb, nDis, nViol, len(knownHit), nCover, nVac, nCoverUnknown, loadS, genS, solveS)
	if nViol > 0 {
		return 1
	}
	if undecided > 0 || nVac > 0 {
		return 2
	}
	if nDis != nOb {
		return 2
	}
	return 0
}

func contains(l []string, s string) bool {
	for _, x := range l {
		if x == s {
			return true
		}
	}
	return false
}

func truncate(s string, n int) string {
	if len(s) > n {
		return s[:n] + "…"
	}
	return s
}

func gitStatus(repo string) string {
	out, _ := exec.Command("git", "-C", repo, "status", "--porcelain").Output()
	return string(out)
}

// ---------------------------------------------------------------------------------------------
// replay

func (c *Ctx) makeReplay(id string, ob *Obligation, repo, smtDir string) *ReplayFile {
	rf := &ReplayFile{Property: id, Obligation: ob.Name, Function: ob.Func, Kind: ob.Kind, Clause: ob.Desc, Pos: ob.Pos, Solver: ob.Solver, Result: ob.Result,
		Model: ob.Model, SolverOut: ob.RawOut, Replayed: "no-failing-input-found"}
	if ob.file != "" {
		if b, err := os.ReadFile(ob.file); err == nil && len(b) < 200000 {
			rf.Smt2 = string(b)
		}
	}
	if ob.Result != "sat" || len(ob.Model) == 0 {
		return rf
	}
	src, pkgDir, err := c.genReplayTest(ob)
	if err != nil {
		rf.ReplayOut = "replay not generated: " + err.Error()
		return rf
	}
	rf.TestSrc, rf.PkgDir = src, pkgDir
	repro, out := runReplayTest(repo, pkgDir, src)
	rf.ReplayOut = truncate(out, 6000)
	if repro {
		rf.Replayed = "reproduced"
	} else {
		rf.Replayed = "not-reproduced"
	}
	return rf
}

func runReplayTest(repo, pkgDir, src string) (bool, string) {
	dir, err := os.MkdirTemp("", "gvc-replay")
	if err != nil {
		return false, err.Error()
	}
	defer os.RemoveAll(dir)
	testFile := filepath.Join(dir, "zz_gvc_replay_test.go")
	os.WriteFile(testFile, []byte(src), 0644)
	ov := map[string]map[string]string{"Replace": {filepath.Join(repo, pkgDir, "zz_gvc_replay_test.go"): testFile}}
	ovb, _ := json.Marshal(ov)
	ovFile := filepath.Join(dir, "overlay.json")
	os.WriteFile(ovFile, ovb, 0644)
	modfile, cleanup := scratchModfile(repo)
	defer cleanup()
	cmd := exec.Command("bash", "-c", fmt.Sprintf("ulimit -v 8000000; cd %s && go test -overlay %s -vet=off -count=1 -timeout 60s -run 'TestGvcReplay$' ./%s 2>&1", repo, ovFile, pkgDir))
	cmd.Env = goEnv(modfile)
	out, _ := cmd.CombinedOutput()
	o := string(out)
	return strings.Contains(o, "GVC-REPLAY: violated"), o
}

func cmdReplay(args []string) int {
	if len(args) < 1 {
		fmt.Println("usage: gvc replay <file>")
		return 2
	}
	b, err := os.ReadFile(args[0])
	if err != nil {
		fmt.Println(err)
		return 2
	}
	var rf ReplayFile
	if err := json.Unmarshal(b, &rf); err != nil {
		fmt.Println(err)
		return 2
	}
	fmt.Printf("obligation: %s\nclause: %s\nsolver: %s (%s)\nmodel: %s\n", rf.Obligation, rf.Clause, rf.Solver, rf.Result, fmtModel(rf.Model))
	if rf.TestSrc == "" {
		fmt.Println("no executable replay for this obligation (no-failing-input-found); solver output follows")
		fmt.Println(rf.SolverOut)
		return 1
	}
	repro, out := runReplayTest("/repo", rf.PkgDir, rf.TestSrc)
	fmt.Println(out)
	if repro {
		fmt.Println("replay: reproduced on the current tree")
		return 1
	}
	fmt.Println("replay: not reproduced on the current tree")
	return 0
}

func runBounded(repo, verif string, bc BoundedCfg) (bool, string, float64) {
	t0 := time.Now()
	dir, err := os.MkdirTemp("", "gvc-bounded")
	if err != nil {
		return false, err.Error(), 0
	}
	defer os.RemoveAll(dir)
	src := filepath.Join(verif, "bounded", bc.File)
	ov := map[string]map[string]string{"Replace": {filepath.Join(repo, bc.Pkg, "zz_gvc_bounded_test.go"): src}}
	ovb, _ := json.Marshal(ov)
	ovFile := filepath.Join(dir, "overlay.json")
	os.WriteFile(ovFile, ovb, 0644)
	modfile, cleanup := scratchModfile(repo)
	defer cleanup()
	cmd := exec.Command("bash", "-c", fmt.Sprintf("cd %s && go test -overlay %s -vet=off -count=1 -timeout 600s -run '%s' ./%s 2>&1", repo, ovFile, bc.Run, bc.Pkg))
	cmd.Env = goEnv(modfile)
	out, err := cmd.CombinedOutput()
	return err == nil, string(out), time.Since(t0).Seconds()
}

// obStem strips the return / call ordinal from an obligation name: F#post/label@ret11 -> F#post/label@ret.
func obStem(name string) string {
	i := strings.LastIndex(name, "@")
	if i < 0 {
		return name
	}
	return name[:i+1] + strings.TrimRight(name[i+1:], "0123456789")
}

// siteMatch finds an open known finding for the same function and clause whose recorded site text equals the source line
// this obligation sits on, and which no obligation has claimed yet in this run. It lets a finding follow its return
// statement or call when an unrelated edit shifts the ordinals; each entry absorbs at most one obligation, so an additional
// failing site is still reported.
func siteText(ob *Obligation, repo string) string {
	i := strings.LastIndex(ob.Pos, ":")
	if i < 0 {
		return ""
	}
	var line int
	fmt.Sscanf(ob.Pos[i+1:], "%d", &line)
	b, err := os.ReadFile(filepath.Join(repo, ob.Pos[:i]))
	if err != nil || line <= 0 {
		return ""
	}
	lines := strings.Split(string(b), "\n")
	if line > len(lines) {
		return ""
	}
	return strings.TrimSpace(lines[line-1])
}

func siteMatch(ob *Obligation, repo string, used map[string]bool) string {
	text := siteText(ob, repo)
	if text == "" {
		return ""
	}
	for _, k := range knownFindings {
		if k.Status == "fixed" || k.Site == "" || used[k.Obligation] || k.Obligation == ob.Name {
			continue
		}
		if obStem(k.Obligation) == obStem(ob.Name) && k.Site == text {
			return k.Obligation
		}
	}
	return ""
}

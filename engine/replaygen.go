package main

// Turns a solver model into a Go test that runs the real function and evaluates the failed clause.

import (
	"fmt"
	"go/constant"
	"go/types"
	"math/big"
	"path/filepath"
	"sort"
	"strings"

	"golang.org/x/tools/go/ssa"
)

type goGen struct {
	c       *Ctx
	pkg     *types.Package
	imports map[string]string // path -> name
	model   map[string]string
	vars    map[string]types.Type // Go variables in scope of the test (params, results)
	prelude []string
	partial []string
}

func (g *goGen) qual(p *types.Package) string {
	if p == g.pkg {
		return ""
	}
	g.imports[p.Path()] = p.Name()
	return p.Name()
}

func (g *goGen) typeStr(t types.Type) string { return types.TypeString(t, g.qual) }

func (g *goGen) modelInt(name string) (*big.Int, bool) {
	s, ok := g.model[name]
	if !ok {
		return nil, false
	}
	s = strings.ReplaceAll(strings.Trim(s, "()"), " ", "")
	v, ok := new(big.Int).SetString(s, 10)
	return v, ok
}

// build returns a Go expression constructing the input `name` of type t from the model.
func (g *goGen) build(name string, t types.Type, depth int) string {
	switch kindOf(t) {
	case KInt:
		if v, ok := g.modelInt(name); ok {
			return fmt.Sprintf("%s(%s)", g.typeStr(t), v.String())
		}
		g.partial = append(g.partial, name)
		return fmt.Sprintf("%s(0)", g.typeStr(t))
	case KBool:
		if s, ok := g.model[name]; ok {
			return s
		}
		g.partial = append(g.partial, name)
		return "false"
	case KPtr:
		if isBigIntPtr(t) {
			g.imports["math/big"] = "big"
			if v, ok := g.modelInt(name); ok && v.Sign() == 0 {
				return "nil"
			}
			if v, ok := g.modelInt(name + ".val"); ok {
				return fmt.Sprintf("gvBig(%q)", v.String())
			}
			g.partial = append(g.partial, name)
			return "gvBig(\"0\")"
		}
		if v, ok := g.modelInt(name); ok && v.Sign() == 0 {
			return "nil"
		}
		pt, ok := under(t).(*types.Pointer)
		if !ok || depth > 2 {
			g.partial = append(g.partial, name)
			return "nil"
		}
		if stt, ok := under(pt.Elem()).(*types.Struct); ok {
			var fs []string
			for i := 0; i < stt.NumFields(); i++ {
				f := stt.Field(i)
				fn := name + "." + f.Name()
				has := false
				for k := range g.model {
					if k == fn || strings.HasPrefix(k, fn+".") || strings.HasPrefix(k, fn+"[") {
						has = true
					}
				}
				if !has {
					continue
				}
				if !f.Exported() && f.Pkg() != g.pkg {
					g.partial = append(g.partial, fn)
					continue
				}
				switch kindOf(f.Type()) {
				case KInt, KBool, KPtr, KArr, KStruct, KSlice:
					fs = append(fs, fmt.Sprintf("%s: %s", f.Name(), g.build(fn, f.Type(), depth+1)))
				}
			}
			return fmt.Sprintf("&%s{%s}", g.typeStr(pt.Elem()), strings.Join(fs, ", "))
		}
		g.partial = append(g.partial, name)
		return fmt.Sprintf("new(%s)", g.typeStr(pt.Elem()))
	case KSlice:
		if v, ok := g.modelInt(name + ".len"); ok && v.IsInt64() && v.Int64() >= 0 && v.Int64() <= 1<<20 {
			et := under(t).(*types.Slice).Elem()
			if kindOf(et) == KInt {
				var els []string
				for i := int64(0); i < v.Int64() && i < 16; i++ {
					if ev, ok := g.modelInt(fmt.Sprintf("%s[%d]", name, i)); ok {
						els = append(els, fmt.Sprintf("%d: %s(%s)", i, g.typeStr(et), ev.String()))
					}
				}
				if v.Int64() > 0 {
					els = append(els, fmt.Sprintf("%d: %s(0)", v.Int64()-1, g.typeStr(et)))
					if len(els) > 1 && strings.HasPrefix(els[len(els)-2], fmt.Sprintf("%d:", v.Int64()-1)) {
						els = els[:len(els)-1]
					}
				}
				return fmt.Sprintf("%s{%s}", g.typeStr(t), strings.Join(els, ", "))
			}
			return fmt.Sprintf("make(%s, %d)", g.typeStr(t), v.Int64())
		}
		g.partial = append(g.partial, name)
		return "nil"
	case KArr:
		a := under(t).(*types.Array)
		if kindOf(a.Elem()) == KInt {
			var els []string
			for i := int64(0); i < a.Len(); i++ {
				if ev, ok := g.modelInt(fmt.Sprintf("%s[%d]", name, i)); ok && ev.Sign() != 0 {
					els = append(els, fmt.Sprintf("%d: %s(%s)", i, g.typeStr(a.Elem()), ev.String()))
				}
			}
			return fmt.Sprintf("%s{%s}", g.typeStr(t), strings.Join(els, ", "))
		}
		g.partial = append(g.partial, name)
		return fmt.Sprintf("%s{}", g.typeStr(t))
	case KStruct:
		stt := under(t).(*types.Struct)
		var fs []string
		for i := 0; i < stt.NumFields(); i++ {
			f := stt.Field(i)
			if !f.Exported() && f.Pkg() != g.pkg {
				continue
			}
			switch kindOf(f.Type()) {
			case KInt, KBool, KArr, KStruct, KPtr:
				has := false
				for k := range g.model {
					if k == name+"."+f.Name() || strings.HasPrefix(k, name+"."+f.Name()+".") || strings.HasPrefix(k, name+"."+f.Name()+"[") {
						has = true
					}
				}
				if has {
					fs = append(fs, fmt.Sprintf("%s: %s", f.Name(), g.build(name+"."+f.Name(), f.Type(), depth+1)))
				}
			}
		}
		return fmt.Sprintf("%s{%s}", g.typeStr(t), strings.Join(fs, ", "))
	}
	g.partial = append(g.partial, name)
	return fmt.Sprintf("*new(%s)", g.typeStr(t))
}

type goExpr struct {
	code string
	kind string // int | bool | other
	t    types.Type
}

type genErr struct{ msg string }

func gfail(f string, a ...interface{}) { panic(genErr{fmt.Sprintf(f, a...)}) }

func (g *goGen) wrapGo(code string, t types.Type) goExpr {
	switch kindOf(t) {
	case KInt:
		return goExpr{"gvI(" + code + ")", "int", t}
	case KBool:
		return goExpr{code, "bool", t}
	}
	return goExpr{code, "other", t}
}

func (g *goGen) expr(e *SExpr) goExpr {
	switch e.Kind {
	case "num":
		g.imports["math/big"] = "big"
		return goExpr{fmt.Sprintf("gvBig(%q)", e.Num.String()), "int", nil}
	case "id":
		switch e.Name {
		case "true", "false":
			return goExpr{e.Name, "bool", nil}
		case "nil":
			return goExpr{"nil", "nil", nil}
		}
		if t, ok := g.vars[e.Name]; ok {
			return g.wrapGo("gv_"+e.Name, t)
		}
		if obj := g.pkg.Scope().Lookup(e.Name); obj != nil {
			return g.objExpr(obj, e.Name)
		}
		gfail("unknown identifier %s", e.Name)
	case "un":
		a := g.expr(e.Args[0])
		if e.Op == "!" {
			return goExpr{"!(" + a.code + ")", "bool", nil}
		}
		return goExpr{"gvNeg(" + a.code + ")", "int", nil}
	case "bin":
		switch e.Op {
		case "&&", "||":
			a, b := g.expr(e.Args[0]), g.expr(e.Args[1])
			return goExpr{"(" + a.code + " " + e.Op + " " + b.code + ")", "bool", nil}
		case "==>":
			a, b := g.expr(e.Args[0]), g.expr(e.Args[1])
			return goExpr{"(!(" + a.code + ") || (" + b.code + "))", "bool", nil}
		case "<==>":
			a, b := g.expr(e.Args[0]), g.expr(e.Args[1])
			return goExpr{"((" + a.code + ") == (" + b.code + "))", "bool", nil}
		}
		a, b := g.expr(e.Args[0]), g.expr(e.Args[1])
		switch e.Op {
		case "==", "!=":
			if a.kind == "int" && b.kind == "int" {
				return goExpr{fmt.Sprintf("(gvCmp(%s, %s) %s 0)", a.code, b.code, e.Op), "bool", nil}
			}
			return goExpr{fmt.Sprintf("(%s %s %s)", a.code, e.Op, b.code), "bool", nil}
		case "<", "<=", ">", ">=":
			return goExpr{fmt.Sprintf("(gvCmp(%s, %s) %s 0)", a.code, b.code, e.Op), "bool", nil}
		case "+":
			return goExpr{fmt.Sprintf("gvAdd(%s, %s)", a.code, b.code), "int", nil}
		case "-":
			return goExpr{fmt.Sprintf("gvSub(%s, %s)", a.code, b.code), "int", nil}
		case "*":
			return goExpr{fmt.Sprintf("gvMul(%s, %s)", a.code, b.code), "int", nil}
		case "/":
			return goExpr{fmt.Sprintf("gvDiv(%s, %s)", a.code, b.code), "int", nil}
		case "%":
			return goExpr{fmt.Sprintf("gvMod(%s, %s)", a.code, b.code), "int", nil}
		}
	case "sel":
		if e.Args[0].Kind == "id" {
			if _, isVar := g.vars[e.Args[0].Name]; !isVar {
				ev := &Ev{c: g.c, pkg: g.pkg}
				if p := ev.importedPkg(e.Args[0].Name); p != nil {
					if obj := p.Scope().Lookup(e.Name); obj != nil {
						return g.objExpr(obj, g.qualName(p, e.Name))
					}
				}
			}
		}
		base := g.expr(e.Args[0])
		if base.t == nil {
			gfail("selector on untyped %s", e)
		}
		bt := base.t
		if p, ok := under(bt).(*types.Pointer); ok {
			bt = p.Elem()
		}
		stt, ok := under(bt).(*types.Struct)
		if !ok {
			gfail("selector on non-struct %s", e)
		}
		raw := strings.TrimSuffix(strings.TrimPrefix(base.code, "gvI("), ")")
		if base.kind != "int" {
			raw = base.code
		}
		for i := 0; i < stt.NumFields(); i++ {
			if stt.Field(i).Name() == e.Name {
				return g.wrapGo(raw+"."+e.Name, stt.Field(i).Type())
			}
		}
		gfail("no field %s", e.Name)
	case "idx":
		base := g.expr(e.Args[0])
		idx := g.expr(e.Args[1])
		if base.t == nil {
			gfail("index on untyped %s", e)
		}
		raw := base.code
		var et types.Type
		switch u := under(base.t).(type) {
		case *types.Array:
			et = u.Elem()
		case *types.Slice:
			et = u.Elem()
		default:
			gfail("index on %v", base.t)
		}
		return g.wrapGo(fmt.Sprintf("%s[int(%s.Int64())]", raw, idx.code), et)
	case "call":
		if e.Args[0].Kind == "id" {
			args := e.Args[1:]
			switch e.Args[0].Name {
			case "le64", "be64":
				a := g.expr(args[0])
				code := a.code
				if _, isArr := under(a.t).(*types.Array); isArr {
					code = "func() []byte { x := " + a.code + "; return x[:] }()"
				}
				fn := "gvLE"
				if e.Args[0].Name == "be64" {
					fn = "gvBE"
				}
				return goExpr{fmt.Sprintf("%s(%s, 8)", fn, code), "int", nil}
			case "bytescmp":
				a, b := g.expr(args[0]), g.expr(args[1])
				g.imports["bytes"] = "bytes"
				sl := func(x goExpr) string {
					if _, isArr := under(x.t).(*types.Array); isArr {
						return "func() []byte { x := " + x.code + "; return x[:] }()"
					}
					return x.code
				}
				return goExpr{fmt.Sprintf("gvI(bytes.Compare(%s, %s))", sl(a), sl(b)), "int", nil}
			case "pow2":
				a := g.expr(args[0])
				return goExpr{"gvPow2(" + a.code + ")", "int", nil}
			case "min", "max":
				a, b := g.expr(args[0]), g.expr(args[1])
				return goExpr{fmt.Sprintf("gv%s(%s, %s)", strings.Title(e.Args[0].Name), a.code, b.code), "int", nil}
			case "abs":
				a := g.expr(args[0])
				return goExpr{"gvAbs(" + a.code + ")", "int", nil}
			case "len":
				a := g.expr(args[0])
				return goExpr{"gvI(len(" + a.code + "))", "int", nil}
			case "val":
				a := g.expr(args[0])
				return goExpr{"gvVal(" + a.code + ")", "int", nil}
			case "old":
				// sound only for values that cannot change: scalars passed by value
				if args[0].Kind == "id" {
					return g.expr(args[0])
				}
				gfail("old() of a heap expression is not replayable")
			case "ite":
				c, a, b := g.expr(args[0]), g.expr(args[1]), g.expr(args[2])
				return goExpr{fmt.Sprintf("gvIte(%s, %s, %s)", c.code, a.code, b.code), "int", nil}
			}
			if sf, ok := g.c.S.SpecFns[e.Args[0].Name]; ok && sf.Body != nil {
				// macro expansion
				if len(args) != len(sf.Params) {
					gfail("spec fn arity")
				}
				sub := substSpec(sf.Body, sf.Params, args)
				return g.expr(sub)
			}
		}
		gfail("call %s is not replayable", e)
	}
	gfail("expression %s is not replayable", e)
	return goExpr{}
}

func substSpec(e *SExpr, ps []SVar, args []*SExpr) *SExpr {
	if e.Kind == "id" {
		for i, p := range ps {
			if p.Name == e.Name {
				return args[i]
			}
		}
		return e
	}
	n := *e
	n.Args = nil
	for _, a := range e.Args {
		n.Args = append(n.Args, substSpec(a, ps, args))
	}
	return &n
}

func (g *goGen) qualName(p *types.Package, name string) string {
	q := g.qual(p)
	if q == "" {
		return name
	}
	return q + "." + name
}

func (g *goGen) objExpr(obj types.Object, code string) goExpr {
	switch o := obj.(type) {
	case *types.Const:
		if o.Val().Kind() == constant.Int {
			g.imports["math/big"] = "big"
			return goExpr{fmt.Sprintf("gvBig(%q)", o.Val().ExactString()), "int", nil}
		}
		if o.Val().Kind() == constant.Bool {
			return goExpr{o.Val().String(), "bool", nil}
		}
	case *types.Var:
		return g.wrapGo(code, o.Type())
	}
	gfail("cannot use %s in a replay", obj.Name())
	return goExpr{}
}

const replayHelpers = `
func gvBig(s string) *big.Int { v, _ := new(big.Int).SetString(s, 10); return v }
type gvInts interface{ ~int | ~int8 | ~int16 | ~int32 | ~int64 | ~uint | ~uint8 | ~uint16 | ~uint32 | ~uint64 | ~uintptr }
func gvI[T gvInts](x T) *big.Int {
	if x < 0 { return big.NewInt(int64(x)) }
	return new(big.Int).SetUint64(uint64(x))
}
func gvAdd(a, b *big.Int) *big.Int { return new(big.Int).Add(a, b) }
func gvSub(a, b *big.Int) *big.Int { return new(big.Int).Sub(a, b) }
func gvMul(a, b *big.Int) *big.Int { return new(big.Int).Mul(a, b) }
func gvDiv(a, b *big.Int) *big.Int { if b.Sign() == 0 { return big.NewInt(0) }; return new(big.Int).Div(a, b) }
func gvMod(a, b *big.Int) *big.Int { if b.Sign() == 0 { return new(big.Int).Set(a) }; return new(big.Int).Mod(a, b) }
func gvNeg(a *big.Int) *big.Int { return new(big.Int).Neg(a) }
func gvAbs(a *big.Int) *big.Int { return new(big.Int).Abs(a) }
func gvCmp(a, b *big.Int) int { return a.Cmp(b) }
func gvPow2(a *big.Int) *big.Int { return new(big.Int).Lsh(big.NewInt(1), uint(a.Uint64())) }
func gvMin(a, b *big.Int) *big.Int { if a.Cmp(b) <= 0 { return a }; return b }
func gvMax(a, b *big.Int) *big.Int { if a.Cmp(b) >= 0 { return a }; return b }
func gvIte(c bool, a, b *big.Int) *big.Int { if c { return a }; return b }
func gvVal(a *big.Int) *big.Int { if a == nil { return big.NewInt(0) }; return a }
func gvLE(b []byte, n int) *big.Int { v := new(big.Int); for i := n - 1; i >= 0; i-- { v.Lsh(v, 8); v.Or(v, big.NewInt(int64(b[i]))) }; return v }
func gvBE(b []byte, n int) *big.Int { v := new(big.Int); for i := 0; i < n; i++ { v.Lsh(v, 8); v.Or(v, big.NewInt(int64(b[i]))) }; return v }
var _ = fmt.Sprint
`

func (c *Ctx) genReplayTest(ob *Obligation) (src string, pkgDir string, err error) {
	defer func() {
		if r := recover(); r != nil {
			switch e := r.(type) {
			case genErr:
				err = fmt.Errorf("%s", e.msg)
			case specError:
				err = fmt.Errorf("%s", e.msg)
			default:
				panic(r)
			}
		}
	}()
	if ob.Fn == nil {
		return "", "", fmt.Errorf("obligation is not attached to a function (lemma or call-site)")
	}
	fn := ob.Fn
	if fn.Parent() != nil {
		return "", "", fmt.Errorf("closures are not replayable")
	}
	pkg := fn.Pkg.Pkg
	g := &goGen{c: c, pkg: pkg, imports: map[string]string{"math/big": "big", "testing": "testing", "fmt": "fmt"}, model: ob.Model, vars: map[string]types.Type{}}
	var sb strings.Builder
	var callArgs []string
	con := ob.Con
	for i, p := range fn.Params {
		name := p.Name()
		if con != nil && i < len(con.Params) && con.Params[i] != "_" {
			name = con.Params[i]
		}
		g.vars[name] = p.Type()
		fmt.Fprintf(&sb, "\tvar gv_%s %s = %s\n", name, g.typeStr(p.Type()), g.build(name, p.Type(), 0))
		callArgs = append(callArgs, "gv_"+name)
		if fn.Signature.Recv() != nil && i == 0 {
			g.vars["self"] = p.Type()
			fmt.Fprintf(&sb, "\tgv_self := gv_%s\n\t_ = gv_self\n", name)
		}
	}
	var call string
	if fn.Signature.Recv() != nil {
		call = fmt.Sprintf("gv_%s.%s(%s)", firstParamName(fn, con), fn.Name(), strings.Join(callArgs[1:], ", "))
	} else {
		call = fmt.Sprintf("%s(%s)", fn.Name(), strings.Join(callArgs, ", "))
	}
	nres := fn.Signature.Results().Len()
	var resNames []string
	for i := 0; i < nres; i++ {
		resNames = append(resNames, fmt.Sprintf("gv_result%d", i))
		g.vars[fmt.Sprintf("result%d", i)] = fn.Signature.Results().At(i).Type()
		if nm := fn.Signature.Results().At(i).Name(); nm != "" && nm != "_" {
			if _, clash := g.vars[nm]; !clash {
				g.vars[nm] = fn.Signature.Results().At(i).Type()
				defer func() {}()
			}
		}
		if con != nil && i < len(con.Results) {
			g.vars[con.Results[i]] = fn.Signature.Results().At(i).Type()
		}
	}
	if nres > 0 {
		g.vars["result"] = fn.Signature.Results().At(0).Type()
	}
	var body strings.Builder
	body.WriteString("func TestGvcReplay(t *testing.T) {\n")
	body.WriteString(sb.String())
	if ob.Kind == "post" && ob.ClauseExpr != nil {
		clause := g.expr(ob.ClauseExpr)
		if nres > 0 {
			fmt.Fprintf(&body, "\t%s := %s\n", strings.Join(resNames, ", "), call)
			fmt.Fprintf(&body, "\tgv_result := gv_result0\n\t_ = gv_result\n")
			for i := 0; i < nres; i++ {
				if nm := fn.Signature.Results().At(i).Name(); nm != "" && nm != "_" {
					if _, isParam := paramNamed(fn, nm); !isParam {
						fmt.Fprintf(&body, "\tgv_%s := gv_result%d\n\t_ = gv_%s\n", nm, i, nm)
					}
				}
				if con != nil && i < len(con.Results) {
					fmt.Fprintf(&body, "\tgv_%s := gv_result%d\n\t_ = gv_%s\n", con.Results[i], i, con.Results[i])
				}
				fmt.Fprintf(&body, "\t_ = gv_result%d\n", i)
			}
		} else {
			fmt.Fprintf(&body, "\t%s\n", call)
		}
		fmt.Fprintf(&body, "\tholds := %s\n", clause.code)
		body.WriteString("\tif !holds {\n\t\tfmt.Println(\"GVC-REPLAY: violated\")\n\t\tt.Fatalf(\"clause violated on the real code\")\n\t}\n\tfmt.Println(\"GVC-REPLAY: holds\")\n}\n")
	} else if ob.Kind == "safe" {
		want := ""
		switch {
		case strings.Contains(ob.Name, "#safe/bounds"), strings.Contains(ob.Name, "#safe/slice"):
			want = "out of range"
		case strings.Contains(ob.Name, "#safe/nil"):
			want = "nil pointer"
		case strings.Contains(ob.Name, "#safe/div0"):
			want = "divi"
		case strings.Contains(ob.Name, "#safe/typeassert"):
			want = "interface conversion"
		}
		g.imports["strings"] = "strings"
		fmt.Fprintf(&body, "\tdefer func() {\n\t\tif r := recover(); r != nil {\n\t\t\tif strings.Contains(fmt.Sprint(r), %q) {\n\t\t\t\tfmt.Println(\"GVC-REPLAY: violated\", r)\n\t\t\t} else {\n\t\t\t\tfmt.Println(\"GVC-REPLAY: different panic\", r)\n\t\t\t}\n\t\t\tt.Fatalf(\"panic on the real code: %%v\", r)\n\t\t}\n\t\tfmt.Println(\"GVC-REPLAY: holds\")\n\t}()\n", want)
		fmt.Fprintf(&body, "\t%s\n}\n", call)
	} else {
		return "", "", fmt.Errorf("obligation kind %s has no replay template", ob.Kind)
	}
	var out strings.Builder
	fmt.Fprintf(&out, "package %s\n\nimport (\n", pkg.Name())
	var imps []string
	for p := range g.imports {
		imps = append(imps, p)
	}
	sort.Strings(imps)
	for _, p := range imps {
		if filepath.Base(p) == g.imports[p] {
			fmt.Fprintf(&out, "\t%q\n", p)
		} else {
			fmt.Fprintf(&out, "\t%s %q\n", g.imports[p], p)
		}
	}
	out.WriteString(")\n")
	fmt.Fprintf(&out, "\n// generated by gvc for obligation %s\n// model: %s\n// inputs not determined by the model (left at zero values): %v\n", ob.Name, fmtModel(ob.Model), g.partial)
	out.WriteString(replayHelpers)
	out.WriteString("\n")
	out.WriteString(body.String())
	return out.String(), relPkg(pkg.Path()), nil
}

func firstParamName(fn *ssa.Function, con *Contract) string {
	if con != nil && len(con.Params) > 0 && con.Params[0] != "_" {
		return con.Params[0]
	}
	return fn.Params[0].Name()
}

func paramNamed(fn *ssa.Function, name string) (*ssa.Parameter, bool) {
	for _, p := range fn.Params {
		if p.Name() == name {
			return p, true
		}
	}
	return nil, false
}

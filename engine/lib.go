package main

// Library models (assumed contracts of dependencies, hand-encoded) and constant globals.

import (
	"fmt"
	"go/ast"
	"go/constant"
	"go/token"
	"go/types"
	"math/big"
	"strings"

	"golang.org/x/tools/go/packages"
	"golang.org/x/tools/go/ssa"
)

type libModel func(fr *Frame, st *State, args []*Val, cc *ssa.CallCommon, pos token.Pos) (*Val, *State)

var libModels = map[string]libModel{}
var libWrites = map[string][]string{}

// outPtrFns: modelled functions that write exactly the pointee of the pointer boxed in argument i (index into cc.Args).
var outPtrFns = map[string]int{}

var bigPtrT types.Type

// constant package-level *big.Int values (assumed immutable) and constant slices, by their negative reference id
var bigConsts = map[int64]*Term{}
var constSlices = map[int64]*Term{}

// constMaps: content of never-written package-level maps with integer keys and values, by (negative) object id.
type constMap struct {
	has, val *Term
	n        int
}

var constMaps = map[int64]*constMap{}

func bigval(st *State, ref *Term) *Term {
	if ref.IsConst() && ref.Val.Sign() < 0 {
		if v, ok := bigConsts[ref.Val.Int64()]; ok {
			return v
		}
	}
	return Select(st.heapGet("bigval", SArr(SInt, SInt)), ref)
}
func setBigval(st *State, ref, v *Term) {
	st.heapSet("bigval", Store(st.heapGet("bigval", SArr(SInt, SInt)), ref, v))
}

// timeNano: the instant of a time.Time value as an uninterpreted function of its wall and ext fields (bounded to int64).
func timeNano(v *Val) *Term {
	if v.K != KStruct || len(v.Fs) < 2 {
		unsup("time.Time value expected")
	}
	r := App("time.nano", SInt, v.Fs[0].X, v.Fs[1].X)
	if !hasBound(r) {
		globalFacts = append(globalFacts, And(Le(Neg(Pow2(63)), r), Lt(r, Pow2(63))))
	}
	return r
}

func absT(x *Term) *Term {
	if x.IsConst() {
		return NumB(new(big.Int).Abs(x.Val))
	}
	return Ite(Le(Num(0), x), x, Neg(x))
}

func (c *Ctx) bitlen(v *Term) *Term {
	if v.IsConst() {
		return Num(int64(v.Val.BitLen()))
	}
	r := App("bitlen", SInt, v)
	c.addFact(Le(Num(0), r))
	for _, k := range []uint{0, 8, 16, 32, 63, 64, 128, 255, 256} {
		c.addFact(Eq(Le(r, Num(int64(k))), Lt(v, Pow2(k))))
	}
	return r
}

func intVal(t types.Type, x *Term) *Val { return &Val{K: KInt, T: t, X: x} }
func boolVal(x *Term) *Val               { return &Val{K: KBool, T: types.Typ[types.Bool], X: x} }

func (fr *Frame) newBig(st *State, t types.Type, v *Term) *Val {
	ref := st.Alloc
	st.Alloc = Add(st.Alloc, Num(1))
	setBigval(st, ref, v)
	return mkPtr(t, ref)
}

func (fr *Frame) bigRecvCheck(st *State, z *Val, pos token.Pos) {
	c := fr.C
	if z.X.IsConst() && z.X.Val.Sign() < 0 {
		c.oblige(fr, "safe", "bigconst@"+c.posKey(pos), st, TFalse, "mutating method called on a shared package-level *big.Int", pos)
	}
	if fr.Safety && c.noObligations == 0 {
		c.oblige(fr, "safe", "nil@"+c.posKey(pos), st, Neq(z.X, Num(0)), "nil *big.Int receiver", pos)
	}
}

func init() {
	bigW := []string{"bigval"}
	res0 := func(cc *ssa.CallCommon) types.Type { return cc.Signature().Results().At(0).Type() }
	bin := func(op func(fr *Frame, st *State, x, y *Term, pos token.Pos) *Term) libModel {
		return func(fr *Frame, st *State, a []*Val, cc *ssa.CallCommon, pos token.Pos) (*Val, *State) {
			fr.bigRecvCheck(st, a[0], pos)
			setBigval(st, a[0].X, op(fr, st, bigval(st, a[1].X), bigval(st, a[2].X), pos))
			return a[0], st
		}
	}
	reg := func(name string, writes []string, m libModel) {
		libModels[name] = m
		if writes != nil {
			libWrites[name] = writes
		}
	}
	reg("math/big.NewInt", bigW, func(fr *Frame, st *State, a []*Val, cc *ssa.CallCommon, pos token.Pos) (*Val, *State) {
		return fr.newBig(st, res0(cc), a[0].X), st
	})
	reg("(*math/big.Int).Add", bigW, bin(func(fr *Frame, st *State, x, y *Term, pos token.Pos) *Term { return Add(x, y) }))
	reg("(*math/big.Int).Sub", bigW, bin(func(fr *Frame, st *State, x, y *Term, pos token.Pos) *Term { return Sub(x, y) }))
	reg("(*math/big.Int).Mul", bigW, bin(func(fr *Frame, st *State, x, y *Term, pos token.Pos) *Term { return Mul(x, y) }))
	divChk := func(fr *Frame, st *State, y *Term, pos token.Pos) {
		if fr.Safety && fr.C.noObligations == 0 {
			fr.C.oblige(fr, "safe", "div0@"+fr.C.posKey(pos), st, Neq(y, Num(0)), "big.Int division by zero", pos)
		}
	}
	reg("(*math/big.Int).Quo", bigW, bin(func(fr *Frame, st *State, x, y *Term, pos token.Pos) *Term {
		divChk(fr, st, y, pos)
		// truncated division for all sign combinations
		ax, ay := absT(x), absT(y)
		q := Div(ax, ay)
		return Ite(Eq(Le(Num(0), x), Lt(Num(0), y)), q, Neg(q))
	}))
	reg("(*math/big.Int).Rem", bigW, bin(func(fr *Frame, st *State, x, y *Term, pos token.Pos) *Term {
		divChk(fr, st, y, pos)
		ax, ay := absT(x), absT(y)
		r := Mod(ax, ay)
		return Ite(Le(Num(0), x), r, Neg(r))
	}))
	reg("(*math/big.Int).Div", bigW, bin(func(fr *Frame, st *State, x, y *Term, pos token.Pos) *Term {
		divChk(fr, st, y, pos)
		return Div(x, y) // Euclidean, as SMT-LIB
	}))
	reg("(*math/big.Int).Mod", bigW, bin(func(fr *Frame, st *State, x, y *Term, pos token.Pos) *Term {
		divChk(fr, st, y, pos)
		return Mod(x, y)
	}))
	reg("(*math/big.Int).Exp", bigW, func(fr *Frame, st *State, a []*Val, cc *ssa.CallCommon, pos token.Pos) (*Val, *State) {
		fr.bigRecvCheck(st, a[0], pos)
		x, y := bigval(st, a[1].X), bigval(st, a[2].X)
		var r *Term
		if x.IsConst() && y.IsConst() && y.Val.IsInt64() && y.Val.Int64() >= 0 && y.Val.Int64() <= 4096 {
			r = NumB(new(big.Int).Exp(x.Val, y.Val, nil))
		} else {
			r = App("pow", SInt, x, y)
		}
		if !(a[3].X.IsConst() && a[3].X.Val.Sign() == 0) {
			m := bigval(st, a[3].X)
			r = Ite(Eq(a[3].X, Num(0)), r, Mod(r, absT(m)))
		}
		setBigval(st, a[0].X, r)
		return a[0], st
	})
	un := func(op func(fr *Frame, x *Term) *Term) libModel {
		return func(fr *Frame, st *State, a []*Val, cc *ssa.CallCommon, pos token.Pos) (*Val, *State) {
			fr.bigRecvCheck(st, a[0], pos)
			setBigval(st, a[0].X, op(fr, bigval(st, a[1].X)))
			return a[0], st
		}
	}
	reg("(*math/big.Int).Set", bigW, un(func(fr *Frame, x *Term) *Term { return x }))
	reg("(*math/big.Int).Neg", bigW, un(func(fr *Frame, x *Term) *Term { return Neg(x) }))
	reg("(*math/big.Int).Abs", bigW, un(func(fr *Frame, x *Term) *Term { return absT(x) }))
	setScalar := func(fr *Frame, st *State, a []*Val, cc *ssa.CallCommon, pos token.Pos) (*Val, *State) {
		fr.bigRecvCheck(st, a[0], pos)
		setBigval(st, a[0].X, a[1].X)
		return a[0], st
	}
	reg("(*math/big.Int).SetUint64", bigW, setScalar)
	reg("(*math/big.Int).SetInt64", bigW, setScalar)
	reg("(*math/big.Int).Lsh", bigW, func(fr *Frame, st *State, a []*Val, cc *ssa.CallCommon, pos token.Pos) (*Val, *State) {
		fr.bigRecvCheck(st, a[0], pos)
		x := bigval(st, a[1].X)
		if a[2].X.IsConst() {
			setBigval(st, a[0].X, Mul(x, Pow2(uint(a[2].X.Val.Int64()))))
		} else {
			setBigval(st, a[0].X, Mul(x, fr.C.pow2Term(a[2].X)))
		}
		return a[0], st
	})
	reg("(*math/big.Int).Rsh", bigW, func(fr *Frame, st *State, a []*Val, cc *ssa.CallCommon, pos token.Pos) (*Val, *State) {
		fr.bigRecvCheck(st, a[0], pos)
		x := bigval(st, a[1].X)
		if a[2].X.IsConst() {
			setBigval(st, a[0].X, Div(x, Pow2(uint(a[2].X.Val.Int64()))))
		} else {
			setBigval(st, a[0].X, Div(x, fr.C.pow2Term(a[2].X)))
		}
		return a[0], st
	})
	reg("(*math/big.Int).Cmp", nil, func(fr *Frame, st *State, a []*Val, cc *ssa.CallCommon, pos token.Pos) (*Val, *State) {
		x, y := bigval(st, a[0].X), bigval(st, a[1].X)
		if fr.Safety && fr.C.noObligations == 0 {
			fr.C.oblige(fr, "safe", "nil@"+fr.C.posKey(pos), st, And(Neq(a[0].X, Num(0)), Neq(a[1].X, Num(0))), "nil *big.Int in Cmp", pos)
		}
		return intVal(res0(cc), Ite(Lt(x, y), Num(-1), Ite(Eq(x, y), Num(0), Num(1)))), st
	})
	reg("(*math/big.Int).CmpAbs", nil, func(fr *Frame, st *State, a []*Val, cc *ssa.CallCommon, pos token.Pos) (*Val, *State) {
		x, y := absT(bigval(st, a[0].X)), absT(bigval(st, a[1].X))
		return intVal(res0(cc), Ite(Lt(x, y), Num(-1), Ite(Eq(x, y), Num(0), Num(1)))), st
	})
	reg("(*math/big.Int).Sign", nil, func(fr *Frame, st *State, a []*Val, cc *ssa.CallCommon, pos token.Pos) (*Val, *State) {
		x := bigval(st, a[0].X)
		if fr.Safety && fr.C.noObligations == 0 {
			fr.C.oblige(fr, "safe", "nil@"+fr.C.posKey(pos), st, Neq(a[0].X, Num(0)), "nil *big.Int in Sign", pos)
		}
		return intVal(res0(cc), Ite(Lt(x, Num(0)), Num(-1), Ite(Eq(x, Num(0)), Num(0), Num(1)))), st
	})
	reg("(*math/big.Int).Uint64", nil, func(fr *Frame, st *State, a []*Val, cc *ssa.CallCommon, pos token.Pos) (*Val, *State) {
		return intVal(res0(cc), Mod(absT(bigval(st, a[0].X)), Pow2(64))), st
	})
	reg("(*math/big.Int).Int64", nil, func(fr *Frame, st *State, a []*Val, cc *ssa.CallCommon, pos token.Pos) (*Val, *State) {
		x := bigval(st, a[0].X)
		low := Mod(absT(x), Pow2(64))
		v := wrap(Ite(Le(Num(0), x), low, Neg(low)), types.Typ[types.Int64])
		return intVal(res0(cc), v), st
	})
	reg("(*math/big.Int).IsUint64", nil, func(fr *Frame, st *State, a []*Val, cc *ssa.CallCommon, pos token.Pos) (*Val, *State) {
		x := bigval(st, a[0].X)
		return boolVal(And(Le(Num(0), x), Lt(x, Pow2(64)))), st
	})
	reg("(*math/big.Int).IsInt64", nil, func(fr *Frame, st *State, a []*Val, cc *ssa.CallCommon, pos token.Pos) (*Val, *State) {
		x := bigval(st, a[0].X)
		return boolVal(And(Le(Neg(Pow2(63)), x), Lt(x, Pow2(63)))), st
	})
	reg("(*math/big.Int).BitLen", nil, func(fr *Frame, st *State, a []*Val, cc *ssa.CallCommon, pos token.Pos) (*Val, *State) {
		return intVal(res0(cc), fr.C.bitlen(absT(bigval(st, a[0].X)))), st
	})
	reg("(*math/big.Int).String", nil, func(fr *Frame, st *State, a []*Val, cc *ssa.CallCommon, pos token.Pos) (*Val, *State) {
		return &Val{K: KStr, T: res0(cc), X: App("big.string", SStr, bigval(st, a[0].X))}, st
	})
	reg("(*math/big.Int).Bytes", []string{"S:byte"}, func(fr *Frame, st *State, a []*Val, cc *ssa.CallCommon, pos token.Pos) (*Val, *State) {
		c := fr.C
		v := absT(bigval(st, a[0].X))
		ln := App("big.byteslen", SInt, v)
		c.addFact(Le(Num(0), ln))
		// len = ceil(bitlen/8): characterised by 256^(len-1) <= v < 256^len for the sizes that matter
		for _, k := range []uint{0, 1, 2, 4, 8, 16, 31, 32, 33} {
			c.addFact(Eq(Le(ln, Num(int64(k))), Lt(v, Pow2(8*k))))
		}
		s := fr.makeSlice(st, res0(cc), ln, ln)
		key := "S:byte"
		arr := st.heapGet(key, SArr(SInt, SArr(SInt, SInt)))
		content := App("big.bytes", SArr(SInt, SInt), v)
		st.heapSet(key, Store(arr, s.X, content))
		// big-endian digits: content[i] = (v div 256^(len-1-i)) mod 256 ; given as an axiom instance over the spec function bebytes
		c.addFact(Eq(App("be", SInt, content, Num(0), ln), v))
		return s, st
	})
	// SetString(s, base): the receiver takes an unspecified value (the parse of s); returns (receiver, ok)
	reg("(*math/big.Int).SetString", bigW, func(fr *Frame, st *State, a []*Val, cc *ssa.CallCommon, pos token.Pos) (*Val, *State) {
		fr.bigRecvCheck(st, a[0], pos)
		setBigval(st, a[0].X, Fresh("big.parsed", SInt))
		return &Val{K: KTuple, T: cc.Signature().Results(), Fs: []*Val{a[0], boolVal(Fresh("big.parsed#ok", SBool))}}, st
	})
	reg("(*math/big.Int).SetBytes", bigW, func(fr *Frame, st *State, a []*Val, cc *ssa.CallCommon, pos token.Pos) (*Val, *State) {
		fr.bigRecvCheck(st, a[0], pos)
		arr := st.heapGet("S:byte", SArr(SInt, SArr(SInt, SInt)))
		v := App("be", SInt, Select(arr, a[1].X), a[1].Off, a[1].Len)
		fr.C.addFact(Le(Num(0), v))
		setBigval(st, a[0].X, v)
		return a[0], st
	})

	// encoding/binary
	put := func(n int, little bool) libModel {
		return func(fr *Frame, st *State, a []*Val, cc *ssa.CallCommon, pos token.Pos) (*Val, *State) {
			b, v := a[1], a[2].X
			if fr.Safety && fr.C.noObligations == 0 {
				fr.C.oblige(fr, "safe", "bounds@"+fr.C.posKey(pos), st, Le(Num(int64(n)), b.Len), "binary.Put: buffer too short", pos)
			}
			arr := st.heapGet("S:byte", SArr(SInt, SArr(SInt, SInt)))
			content := Select(arr, b.X)
			// chained digit extraction (q_0 = v; byte_k = q_k mod 256; q_{k+1} = q_k div 256) is much easier for the solvers
			// than independent (v div 256^k) mod 256 terms
			digits := make([]*Term, n)
			q := v
			for k := 0; k < n; k++ {
				digits[k] = Mod(q, Num(256))
				q = Div(q, Num(256))
			}
			for i := 0; i < n; i++ {
				sh := i
				if !little {
					sh = n - 1 - i
				}
				content = Store(content, Add(b.Off, Num(int64(i))), digits[sh])
			}
			st.heapSet("S:byte", Store(arr, b.X, content))
			return &Val{K: KUnit}, st
		}
	}
	get := func(n int, little bool) libModel {
		return func(fr *Frame, st *State, a []*Val, cc *ssa.CallCommon, pos token.Pos) (*Val, *State) {
			b := a[1]
			if fr.Safety && fr.C.noObligations == 0 {
				fr.C.oblige(fr, "safe", "bounds@"+fr.C.posKey(pos), st, Le(Num(int64(n)), b.Len), "binary.Uint: buffer too short", pos)
			}
			arr := st.heapGet("S:byte", SArr(SInt, SArr(SInt, SInt)))
			content := Select(arr, b.X)
			v := Num(0)
			for i := 0; i < n; i++ {
				sh := i
				if !little {
					sh = n - 1 - i
				}
				by := Select(content, Add(b.Off, Num(int64(i))))
				addTypeFact(And(Le(Num(0), by), Le(by, Num(255))))
				v = Add(v, Mul(by, Pow2(uint(8*sh))))
			}
			return intVal(res0(cc), v), st
		}
	}
	sb := []string{"S:byte"}
	reg("(encoding/binary.littleEndian).PutUint64", sb, put(8, true))
	reg("(encoding/binary.littleEndian).PutUint32", sb, put(4, true))
	reg("(encoding/binary.littleEndian).PutUint16", sb, put(2, true))
	reg("(encoding/binary.bigEndian).PutUint64", sb, put(8, false))
	reg("(encoding/binary.bigEndian).PutUint32", sb, put(4, false))
	reg("(encoding/binary.bigEndian).PutUint16", sb, put(2, false))
	reg("(encoding/binary.littleEndian).Uint64", nil, get(8, true))
	reg("(encoding/binary.littleEndian).Uint32", nil, get(4, true))
	reg("(encoding/binary.littleEndian).Uint16", nil, get(2, true))
	reg("(encoding/binary.bigEndian).Uint64", nil, get(8, false))
	reg("(encoding/binary.bigEndian).Uint32", nil, get(4, false))
	reg("(encoding/binary.bigEndian).Uint16", nil, get(2, false))

	// errors
	newErr := func(fr *Frame, st *State, a []*Val, cc *ssa.CallCommon, pos token.Pos) (*Val, *State) {
		id := Fresh("err", SInt)
		fr.C.addFact(Lt(Num(0), id))
		return &Val{K: KIface, T: res0(cc), X: id}, st
	}
	for _, n := range []string{"errors.New", "fmt.Errorf", "github.com/pkg/errors.New", "github.com/pkg/errors.Errorf", "github.com/pkg/errors.Wrap", "github.com/pkg/errors.Wrapf", "github.com/pkg/errors.WithStack", "github.com/pkg/errors.WithMessage"} {
		reg(n, nil, newErr)
	}
	nop := func(fr *Frame, st *State, a []*Val, cc *ssa.CallCommon, pos token.Pos) (*Val, *State) {
		return fr.freshResult(cc.Signature(), "nop"), st
	}
	for _, n := range []string{"(*sync.Mutex).Lock", "(*sync.Mutex).Unlock", "(*sync.RWMutex).Lock", "(*sync.RWMutex).Unlock", "(*sync.RWMutex).RLock", "(*sync.RWMutex).RUnlock",
		"(github.com/inconshreveable/log15.Logger).Info", "(github.com/inconshreveable/log15.Logger).Debug", "(github.com/inconshreveable/log15.Logger).Warn",
		"(github.com/inconshreveable/log15.Logger).Error", "(github.com/inconshreveable/log15.Logger).Crit", "(github.com/inconshreveable/log15.Logger).New",
		"(common.Logger).Info", "(common.Logger).Debug", "(common.Logger).Warn", "(common.Logger).Error", "(common.Logger).Crit", "(common.Logger).New",
		"fmt.Sprintf", "fmt.Sprint", "fmt.Println", "fmt.Printf", "fmt.Sprintln", "regexp.MatchString", "reflect.DeepEqual", "github.com/ethereum/go-ethereum/common.IsHexAddress", "strings.ToLower", "crypto/ed25519.GenerateKey", "crypto/ed25519.Sign", "github.com/tyler-smith/go-bip39.NewMnemonic", "github.com/tyler-smith/go-bip39.NewSeed", "crypto/hmac.New", "(hash.Hash).Write", "(time.Time).UTC", "(*regexp.Regexp).MatchString", "strings.TrimRight", "strings.TrimLeft", "strings.TrimSpace", "bytes.NewReader", "(*encoding/base64.Encoding).DecodeString", "time.Now", "time.Since", "(time.Time).Sub", "(time.Time).Add", "time.Unix",
		"(github.com/inconshreveable/log15.Logger).Trace", "github.com/inconshreveable/log15.Error", "github.com/inconshreveable/log15.Info", "github.com/inconshreveable/log15.Warn", "github.com/inconshreveable/log15.Debug", "github.com/inconshreveable/log15.Crit", "(time.Duration).Seconds",
		"(*sync.WaitGroup).Add", "(*sync.WaitGroup).Done", "(*sync.WaitGroup).Wait", "runtime/debug.Stack", "strings.ToLower", "strings.ToUpper",
		"encoding/hex.EncodeToString", "encoding/hex.DecodeString", "strconv.Itoa", "strconv.FormatUint", "strconv.FormatInt"} {
		reg(n, nil, nop)
	}
	// ABI encoding/decoding (reflection-driven, NOT verified). ASSUMED: both are deterministic functions of their inputs.
	//   Unpack*(v, name, data): every leaf of *v becomes abidec_<Type>_<Field>(name, bytesval(data)); nothing else changes; the
	//     error is nil iff abiok(name, bytesval(data)).  (On a failed decode the model still writes those values; every caller
	//     returns at once on error.)
	//   Pack*(name, args...): bytesval(result) = abipack_<sorts>(name, args by value).
	// The uninterpreted functions are visible to specifications as spec functions of the same names (abidec_..., abipack_...).
	for _, n := range []string{"UnpackMethod", "UnpackVariable", "UnpackVariablePanic"} {
		nm := "(" + modPath + "/vm/abi.ABIContract)." + n
		outPtrFns[nm] = 1
		panicVariant := strings.HasSuffix(n, "Panic") // no error result: a failed decode panics, the path continues only with abiok
		reg(nm, nil, func(fr *Frame, st *State, a []*Val, cc *ssa.CallCommon, pos token.Pos) (*Val, *State) {
			mi, ok := cc.Args[1].(*ssa.MakeInterface)
			var pt *types.Pointer
			if ok {
				pt, ok = under(mi.X.Type()).(*types.Pointer)
			}
			if !ok {
				st.havocAll()
				fr.C.reassertConstGlobals(st)
				return fr.freshResult(cc.Signature(), "abi.unpack"), st
			}
			p := fr.val(st, mi.X)
			if p.Cell != nil {
				unsup("abi unpack into a local cell")
			}
			in := a[3]
			bv := fr.C.bytesVal(Select(st.heapGet("S:byte", SArr(SInt, SArr(SInt, SInt))), in.X), in.Off, in.Len)
			tn := tstr(pt.Elem())
			if k := strings.LastIndex(tn, "."); k >= 0 {
				tn = tn[k+1:]
			}
			fv := fr.abiDecoded(st, pt.Elem(), tn, a[2].X, bv)
			fr.store(st, p, pt.Elem(), fv)
			na := Fresh("alloc", SInt)
			nonNegSyms[na.Name] = true
			fr.C.addFact(Le(st.Alloc, na))
			st.Alloc = na
			fr.C.allocFacts(fv, st.Alloc)
			if panicVariant {
				st.R = And(st.R, App("spec!abiok", SBool, a[2].X, bv))
				return &Val{K: KUnit}, st
			}
			e := Fresh("abi.err", SInt)
			fr.C.addFact(Eq(Eq(e, Num(0)), App("spec!abiok", SBool, a[2].X, bv)))
			return &Val{K: KIface, T: res0(cc), X: e}, st
		})
	}
	reg("("+modPath+"/vm/abi.ABIContract).UnpackEmptyMethod", nil, func(fr *Frame, st *State, a []*Val, cc *ssa.CallCommon, pos token.Pos) (*Val, *State) {
		in := a[2]
		bv := fr.C.bytesVal(Select(st.heapGet("S:byte", SArr(SInt, SArr(SInt, SInt))), in.X), in.Off, in.Len)
		e := Fresh("abi.err", SInt)
		fr.C.addFact(Eq(Eq(e, Num(0)), App("spec!abiok", SBool, a[1].X, bv)))
		return &Val{K: KIface, T: res0(cc), X: e}, st
	})
	for _, n := range []string{"PackMethod", "PackVariable", "PackMethodPanic", "PackVariablePanic"} {
		packPanics := strings.HasSuffix(n, "Panic") // returns the bytes only (a failed encode panics)
		reg("("+modPath+"/vm/abi.ABIContract)."+n, []string{"S:byte"}, func(fr *Frame, st *State, a []*Val, cc *ssa.CallCommon, pos token.Pos) (*Val, *State) {
			rt := cc.Signature().Results()
			ln := Fresh("abi.packed#len", SInt)
			fr.C.addFact(Le(Num(0), ln))
			fr.C.addFact(Le(ln, Pow2(40)))
			out := fr.makeSlice(st, rt.At(0).Type(), ln, ln)
			// content: unspecified bytes
			key := "S:byte"
			hp := st.heapGet(key, SArr(SInt, SArr(SInt, SInt)))
			content := Fresh("abi.packed#content", SArr(SInt, SInt))
			st.heapSet(key, Store(hp, out.X, content))
			// ghost: the abstract value of the last packed byte string on this path (`lastpacked()` in specifications)
			st.Ghost["lastpacked"] = fr.C.bytesVal(content, Num(0), ln)
			if args, sig, ok := fr.packArgs(st, cc.Args[2]); ok {
				bv := fr.C.bytesVal(content, Num(0), ln)
				fr.C.addFact(Eq(bv, App("spec!abipack_"+sig, SInt, append([]*Term{a[1].X}, args...)...)))
			}
			if packPanics {
				return out, st
			}
			var facts []*Term
			ev := freshVal(rt.At(1).Type(), "abi.packerr", &facts)
			return &Val{K: KTuple, T: rt, Fs: []*Val{out, ev}}, st
		})
	}
	// crypto/ed25519.Verify(publicKey, message, sig): uninterpreted sigValid(pk, msg, sig); per its documentation a signature of
	// any length other than 64 never verifies (and the key has 32 bytes, else it panics)
	reg("crypto/ed25519.Verify", nil, func(fr *Frame, st *State, a []*Val, cc *ssa.CallCommon, pos token.Pos) (*Val, *State) {
		hp := st.heapGet("S:byte", SArr(SInt, SArr(SInt, SInt)))
		bv := func(v *Val) *Term { return fr.C.bytesVal(Select(hp, v.X), v.Off, v.Len) }
		r := App("spec!sigValid", SBool, bv(a[0]), bv(a[1]), bv(a[2]))
		fr.C.addFact(Implies(r, And(Eq(a[2].Len, Num(64)), Eq(a[0].Len, Num(32)))))
		return boolVal(r), st
	})
	// sort.Sort / sort.Stable(x) where x wraps a slice: the elements of that window are permuted (unspecified order - the Less
	// method is not interpreted) and the window is recorded as sorted (ghost; `sorted(s)` in specifications asks whether exactly
	// the window s of its array is the one last sorted). Anything else the methods of x do is ignored (ASSUMED: Len/Less/Swap
	// touch only the slice).
	for _, n := range []string{"sort.Sort", "sort.Stable"} {
		reg(n, nil, func(fr *Frame, st *State, a []*Val, cc *ssa.CallCommon, pos token.Pos) (*Val, *State) {
			mi, ok := cc.Args[0].(*ssa.MakeInterface)
			if !ok {
				st.havocAll()
				fr.C.reassertConstGlobals(st)
				return &Val{K: KUnit}, st
			}
			sv := fr.val(st, mi.X)
			sl, isS := under(mi.X.Type()).(*types.Slice)
			if sv.K != KSlice || !isS {
				st.havocAll()
				fr.C.reassertConstGlobals(st)
				return &Val{K: KUnit}, st
			}
			root := "S:" + tstr(sl.Elem())
			for _, l := range sliceLeaves(sl.Elem()) {
				key := heapKey(root, l.path)
				srt := SArr(SInt, SArr(SInt, sortOf(l.t)))
				arr := st.heapGet(key, srt)
				nc := Fresh("sorted!content", srt.Elem)
				q := BoundVar("m", SInt)
				oldC := Select(arr, sv.X)
				fr.C.addFact(ForallPat([]*Term{q}, Implies(Or(Lt(q, sv.Off), Le(Add(sv.Off, sv.Len), q)), Eq(Select(nc, q), Select(oldC, q))), Select(nc, q)))
				st.heapSet(key, Store(arr, sv.X, nc))
			}
			so := st.heapGet(root+"#sortedOff", SArr(SInt, SInt))
			sn := st.heapGet(root+"#sortedLen", SArr(SInt, SInt))
			st.heapSet(root+"#sortedOff", Store(so, sv.X, sv.Off))
			st.heapSet(root+"#sortedLen", Store(sn, sv.X, sv.Len))
			return &Val{K: KUnit}, st
		})
	}
	// strings.Split: at least one element
	reg("strings.Split", nil, func(fr *Frame, st *State, a []*Val, cc *ssa.CallCommon, pos token.Pos) (*Val, *State) {
		v := fr.freshResult(cc.Signature(), "strings.Split")
		fr.C.addFact(Le(Num(1), v.Len))
		na := Fresh("alloc", SInt)
		nonNegSyms[na.Name] = true
		fr.C.addFact(Le(st.Alloc, na))
		st.Alloc = na
		fr.C.allocFacts(v, st.Alloc)
		return v, st
	})
	// strconv.ParseUint(s, base, bitSize): on success the value fits bitSize bits (constant bitSize)
	reg("strconv.ParseUint", nil, func(fr *Frame, st *State, a []*Val, cc *ssa.CallCommon, pos token.Pos) (*Val, *State) {
		v := fr.freshResult(cc.Signature(), "strconv.ParseUint")
		if a[2].X.IsConst() && a[2].X.Val.IsInt64() && a[2].X.Val.Int64() > 0 && a[2].X.Val.Int64() <= 64 {
			fr.C.addFact(Implies(Eq(v.Fs[1].X, Num(0)), Lt(v.Fs[0].X, Pow2(uint(a[2].X.Val.Int64())))))
		}
		return v, st
	})
	// ---- cryptography used by the wallet (external code, ASSUMED to be functions of their inputs) --------------------------
	// argon2.IDKey(password, salt, time, memory, threads, keyLen): keyLen bytes, a function of all six arguments
	reg("golang.org/x/crypto/argon2.IDKey", []string{"S:byte"}, func(fr *Frame, st *State, a []*Val, cc *ssa.CallCommon, pos token.Pos) (*Val, *State) {
		hp := st.heapGet("S:byte", SArr(SInt, SArr(SInt, SInt)))
		bv := func(v *Val) *Term { return fr.C.bytesVal(Select(hp, v.X), v.Off, v.Len) }
		out := fr.makeSlice(st, res0(cc), a[5].X, a[5].X)
		content := App("argon2.bytes", SArr(SInt, SInt), bv(a[0]), bv(a[1]), a[2].X, a[3].X, a[4].X, a[5].X)
		h2 := st.heapGet("S:byte", SArr(SInt, SArr(SInt, SInt)))
		st.heapSet("S:byte", Store(h2, out.X, content))
		fr.C.addFact(Eq(fr.C.bytesVal(content, Num(0), a[5].X), App("spec!argon2v", SInt, bv(a[0]), bv(a[1]), a[2].X, a[3].X, a[4].X, a[5].X)))
		return out, st
	})
	// aes.NewCipher(key): a block cipher identified by the key bytes; fails unless the key has 16, 24 or 32 bytes
	reg("crypto/aes.NewCipher", nil, func(fr *Frame, st *State, a []*Val, cc *ssa.CallCommon, pos token.Pos) (*Val, *State) {
		hp := st.heapGet("S:byte", SArr(SInt, SArr(SInt, SInt)))
		kv := fr.C.bytesVal(Select(hp, a[0].X), a[0].Off, a[0].Len)
		okLen := Or(Eq(a[0].Len, Num(16)), Eq(a[0].Len, Num(24)), Eq(a[0].Len, Num(32)))
		blk := App("aes.block", SInt, kv)
		fr.C.addFact(Lt(Num(0), blk))
		fr.C.addFact(Eq(App("spec!cipherKey", SInt, blk), kv))
		e := Fresh("aes.err", SInt)
		fr.C.addFact(Eq(Eq(e, Num(0)), okLen))
		rt := cc.Signature().Results()
		return &Val{K: KTuple, T: rt, Fs: []*Val{{K: KIface, T: rt.At(0).Type(), X: Ite(okLen, blk, Num(0))}, {K: KIface, T: rt.At(1).Type(), X: e}}}, st
	})
	// cipher.NewGCM(block): the AEAD of that block cipher (standard nonce and tag sizes); never fails for AES
	reg("crypto/cipher.NewGCM", nil, func(fr *Frame, st *State, a []*Val, cc *ssa.CallCommon, pos token.Pos) (*Val, *State) {
		aead := App("gcm.of", SInt, a[0].X)
		fr.C.addFact(Lt(Num(0), aead))
		fr.C.addFact(Eq(App("spec!cipherKey", SInt, aead), App("spec!cipherKey", SInt, a[0].X)))
		rt := cc.Signature().Results()
		return &Val{K: KTuple, T: rt, Fs: []*Val{{K: KIface, T: rt.At(0).Type(), X: aead}, {K: KIface, T: rt.At(1).Type(), X: Num(0)}}}, st
	})
	// AEAD.NonceSize(): 12 for the standard GCM that cipher.NewGCM returns (the only AEAD constructed in the repository)
	reg("(crypto/cipher.AEAD).NonceSize", nil, func(fr *Frame, st *State, a []*Val, cc *ssa.CallCommon, pos token.Pos) (*Val, *State) {
		return intVal(res0(cc), Num(12)), st
	})
	// AEAD.Seal(dst, nonce, plaintext, ad) with dst == nil: ciphertext||tag = gcmSeal(key, nonce, plaintext, ad)
	reg("(crypto/cipher.AEAD).Seal", []string{"S:byte"}, func(fr *Frame, st *State, a []*Val, cc *ssa.CallCommon, pos token.Pos) (*Val, *State) {
		hp := st.heapGet("S:byte", SArr(SInt, SArr(SInt, SInt)))
		bv := func(v *Val) *Term { return fr.C.bytesVal(Select(hp, v.X), v.Off, v.Len) }
		if !(a[1].Len.IsConst() && a[1].Len.Val.Sign() == 0) {
			unsup("AEAD.Seal with a non-nil dst")
		}
		ln := Add(a[3].Len, Num(16))
		sealed := App("spec!gcmSeal", SInt, App("spec!cipherKey", SInt, a[0].X), bv(a[2]), bv(a[3]), bv(a[4]))
		out := fr.makeSlice(st, res0(cc), ln, ln)
		content := Fresh("gcm.sealed", SArr(SInt, SInt))
		h2 := st.heapGet("S:byte", SArr(SInt, SArr(SInt, SInt)))
		if a[1].X.IsConst() && a[1].X.Val.Sign() == 0 {
			st.heapSet("S:byte", Store(h2, out.X, content))
			fr.C.addFact(Eq(fr.C.bytesVal(content, Num(0), ln), sealed))
			return out, st
		}
		// dst is an empty slice of an existing array (the x[:0] idiom): like append, the output is written into dst's array
		// when its capacity suffices - overwriting whatever that array holds - and into a new array otherwise
		dst := a[1]
		fits := Le(ln, dst.Cap)
		inPlace := Fresh("gcm.sealed.inplace", SArr(SInt, SInt))
		fr.C.addFact(Eq(fr.C.bytesVal(content, Num(0), ln), sealed))
		fr.C.addFact(Eq(fr.C.bytesVal(inPlace, dst.Off, ln), sealed))
		st.heapSet("S:byte", Ite(fits, Store(h2, dst.X, inPlace), Store(h2, out.X, content)))
		res := &Val{K: KSlice, T: out.T, X: Ite(fits, dst.X, out.X), Off: Ite(fits, dst.Off, Num(0)), Len: ln, Cap: Ite(fits, dst.Cap, ln)}
		return res, st
	})
	// AEAD.Open(dst, nonce, ciphertext, ad) with dst == nil: succeeds iff gcmValid(key, nonce, ciphertext, ad); then the
	// plaintext is gcmOpen(key, nonce, ciphertext, ad)
	reg("(crypto/cipher.AEAD).Open", []string{"S:byte"}, func(fr *Frame, st *State, a []*Val, cc *ssa.CallCommon, pos token.Pos) (*Val, *State) {
		hp := st.heapGet("S:byte", SArr(SInt, SArr(SInt, SInt)))
		bv := func(v *Val) *Term { return fr.C.bytesVal(Select(hp, v.X), v.Off, v.Len) }
		key := App("spec!cipherKey", SInt, a[0].X)
		valid := App("spec!gcmValid", SBool, key, bv(a[2]), bv(a[3]), bv(a[4]))
		ln := Fresh("gcm.opened#len", SInt)
		fr.C.addFact(And(Le(Num(0), ln), Le(ln, a[3].Len)))
		rt := cc.Signature().Results()
		out := fr.makeSlice(st, rt.At(0).Type(), ln, ln)
		content := Fresh("gcm.opened", SArr(SInt, SInt))
		h2 := st.heapGet("S:byte", SArr(SInt, SArr(SInt, SInt)))
		st.heapSet("S:byte", Store(h2, out.X, content))
		fr.C.addFact(Implies(valid, Eq(fr.C.bytesVal(content, Num(0), ln), App("spec!gcmOpen", SInt, key, bv(a[2]), bv(a[3]), bv(a[4])))))
		e := Fresh("gcm.err", SInt)
		fr.C.addFact(Eq(Eq(e, Num(0)), valid))
		return &Val{K: KTuple, T: rt, Fs: []*Val{out, {K: KIface, T: rt.At(1).Type(), X: e}}}, st
	})
	// time.Time: an instant is identified by an uninterpreted nanosecond count of its (wall, ext) fields
	reg("(time.Time).UnixNano", nil, func(fr *Frame, st *State, a []*Val, cc *ssa.CallCommon, pos token.Pos) (*Val, *State) {
		return intVal(res0(cc), wrap(timeNano(a[0]), res0(cc))), st
	})
	reg("(time.Time).Unix", nil, func(fr *Frame, st *State, a []*Val, cc *ssa.CallCommon, pos token.Pos) (*Val, *State) {
		return intVal(res0(cc), Div(timeNano(a[0]), Num(1000000000))), st
	})
	reg("(time.Time).After", nil, func(fr *Frame, st *State, a []*Val, cc *ssa.CallCommon, pos token.Pos) (*Val, *State) {
		return boolVal(Gt(timeNano(a[0]), timeNano(a[1]))), st
	})
	reg("(time.Time).Before", nil, func(fr *Frame, st *State, a []*Val, cc *ssa.CallCommon, pos token.Pos) (*Val, *State) {
		return boolVal(Lt(timeNano(a[0]), timeNano(a[1]))), st
	})
	reg("(time.Time).Equal", nil, func(fr *Frame, st *State, a []*Val, cc *ssa.CallCommon, pos token.Pos) (*Val, *State) {
		return boolVal(Eq(timeNano(a[0]), timeNano(a[1]))), st
	})
	// hash.Hash.Sum(b): appends a digest of at least 16 bytes (all hashes used here produce 20..64 bytes); other effects unknown
	reg("(hash.Hash).Sum", []string{"S:byte"}, func(fr *Frame, st *State, a []*Val, cc *ssa.CallCommon, pos token.Pos) (*Val, *State) {
		ln := Fresh("hash.sum#len", SInt)
		fr.C.addFact(And(Le(Add(a[1].Len, Num(16)), ln), Le(ln, Add(a[1].Len, Num(64)))))
		return fr.makeSlice(st, res0(cc), ln, ln), st
	})
	// common.JoinBytes(parts...): concatenation, as an abstract byte string bcat(...) (for a statically known number of parts)
	reg("github.com/zenon-network/go-zenon/common.JoinBytes", []string{"S:byte"}, func(fr *Frame, st *State, a []*Val, cc *ssa.CallCommon, pos token.Pos) (*Val, *State) {
		c := fr.C
		parts := a[0]
		if !parts.Len.IsConst() || parts.Len.Val.Int64() > 24 {
			st.havocKeys([]string{"S:byte"}, nil)
			return fr.freshResult(cc.Signature(), "JoinBytes"), st
		}
		n := parts.Len.Val.Int64()
		rd := func(leaf string, i int64) *Term {
			h := st.heapGet("S:[]byte"+leaf, SArr(SInt, SArr(SInt, SInt)))
			return Select(Select(h, parts.X), Add(parts.Off, Num(i)))
		}
		bytesH := st.heapGet("S:byte", SArr(SInt, SArr(SInt, SInt)))
		total := Num(0)
		var val *Term
		for i := n - 1; i >= 0; i-- {
			arr, off, ln := rd("#arr", i), rd("#off", i), rd("#len", i)
			c.addFact(Le(Num(0), ln))
			total = Add(total, ln)
			v := c.bytesVal(Select(bytesH, arr), off, ln)
			if val == nil {
				val = v
			} else {
				val = c.bcat(v, val)
			}
		}
		if val == nil {
			val = c.bempty()
		}
		res := fr.makeSlice(st, res0(cc), total, total)
		h := st.heapGet("S:byte", SArr(SInt, SArr(SInt, SInt)))
		content := Fresh("join!content", SArr(SInt, SInt))
		st.heapSet("S:byte", Store(h, res.X, content))
		c.addFact(Eq(c.bytesVal(content, Num(0), total), val))
		return res, st
	})
	reg("bytes.Equal", nil, func(fr *Frame, st *State, a []*Val, cc *ssa.CallCommon, pos token.Pos) (*Val, *State) {
		arr := st.heapGet("S:byte", SArr(SInt, SArr(SInt, SInt)))
		x, y := a[0], a[1]
		r := Fresh("bytes.Equal", SBool)
		q := BoundVar("j", SInt)
		same := Forall([]*Term{q}, Implies(And(Le(Num(0), q), Lt(q, x.Len)), Eq(Select(Select(arr, x.X), SliceIdx(x.Off, q)), Select(Select(arr, y.X), SliceIdx(y.Off, q)))))
		fr.C.addFact(Eq(r, And(Eq(x.Len, y.Len), same)))
		return boolVal(r), st
	})
	reg("bytes.Compare", nil, func(fr *Frame, st *State, a []*Val, cc *ssa.CallCommon, pos token.Pos) (*Val, *State) {
		arr := st.heapGet("S:byte", SArr(SInt, SArr(SInt, SInt)))
		x, y := a[0], a[1]
		r := fr.C.bytesCmp(st, bview{Select(arr, x.X), x.Off, x.Len}, bview{Select(arr, y.X), y.Off, y.Len})
		return intVal(res0(cc), r), st
	})
}

// ---------------------------------------------------------------------------------------------
// Globals

type globalConst struct {
	val *Val
}

var globalCache = map[*ssa.Global]*Val{}

func resetGlobals() { globalCache = map[*ssa.Global]*Val{} }

func (c *Ctx) reassertConstGlobals(st *State) {}

// loadGlobal reads a package-level variable. Variables never stored outside package initialisation are constants.
func (c *Ctx) loadGlobal(st *State, p *Val, t types.Type) *Val {
	g := c.findGlobal(p.Root)
	if g == nil || p.Path != "" || c.P.MutGlobals[g] {
		if g != nil && p.Path == "" {
			c.note("global %s is written outside init: read from the heap", p.Root)
		}
		return st.loadAt(p.Root, p.Path, p.X, nil, t)
	}
	if v, ok := globalCache[g]; ok {
		return v
	}
	name := strings.TrimPrefix(p.Root, "G:")
	c.ConstGlobals[name] = true
	v := c.constGlobalValue(g, name, t)
	globalCache[g] = v
	return v
}

var globalsByRoot = map[string]*ssa.Global{}

func (c *Ctx) findGlobal(root string) *ssa.Global {
	if g, ok := globalsByRoot[root]; ok {
		return g
	}
	name := strings.TrimPrefix(root, "G:")
	i := strings.LastIndex(name, ".")
	if i < 0 {
		return nil
	}
	pkg, vn := name[:i], name[i+1:]
	for _, cand := range []string{modPath + "/" + pkg, pkg} {
		if sp := c.P.SSAPkg[cand]; sp != nil {
			if g, ok := sp.Members[vn].(*ssa.Global); ok {
				globalsByRoot[root] = g
				return g
			}
		}
	}
	return nil
}

func (c *Ctx) constGlobalValue(g *ssa.Global, name string, t types.Type) *Val {
	if v := c.constCompositeGlobal(g, name, t); v != nil {
		return v
	}
	init := c.P.GlobalInit[g]
	negID := func() *Term { return Num(-int64(1000 + c.typeTag("global:"+name))) }
	switch x := init.(type) {
	case *ssa.Const:
		return c.constVal(x)
	case *ssa.Call:
		cn := callName(&x.Call)
		switch cn {
		case "math/big.NewInt":
			if k, ok := x.Call.Args[0].(*ssa.Const); ok {
				ref := negID()
				cv := c.constVal(k)
				bigConsts[ref.Val.Int64()] = cv.X
				return mkPtr(t, ref)
			}
		case "errors.New", "fmt.Errorf", "github.com/pkg/errors.New", "github.com/pkg/errors.Errorf":
			return &Val{K: KIface, T: t, X: negID()}
		}
	case *ssa.Convert, *ssa.ChangeType:
		// e.g. var X = T(const)
		var inner ssa.Value
		if cv, ok := x.(*ssa.Convert); ok {
			inner = cv.X
		} else {
			inner = x.(*ssa.ChangeType).X
		}
		if k, ok := inner.(*ssa.Const); ok && kindOf(t) == KInt {
			v := c.constVal(k)
			return &Val{K: KInt, T: t, X: wrap(v.X, t)}
		}
	}
	// composite literal of constants (tables)
	if v := c.constCompositeGlobal(g, name, t); v != nil {
		return v
	}
	// a pointer initialised by a module constructor whose every return is a fresh allocation: non-nil and distinct from the
	// other such globals (contents unknown)
	if call, ok := init.(*ssa.Call); ok && kindOf(t) == KPtr {
		if callee := call.Call.StaticCallee(); callee != nil && callee.Blocks != nil && returnsFreshAlloc(callee) {
			return mkPtr(t, negID())
		}
	}
	// exported error variables of dependencies (leveldb.ErrNotFound, rlp.EOL, io.EOF ...): non-nil, pairwise distinct, never
	// reassigned (assumption)
	if !inModule(g.Pkg.Pkg.Path()) && kindOf(t) == KIface && isErrorType(t) {
		return &Val{K: KIface, T: t, X: negID()}
	}
	// unknown initialiser: a stable symbolic constant
	var facts []*Term
	v := freshValNamed(t, "gval!"+name, &facts)
	for _, f := range facts {
		c.addFact(f)
	}
	if kindOf(t) == KIface && isErrorType(t) && init != nil {
		// error values created at init by a constructor call are non-nil and pairwise distinct from other such globals
		if _, isCall := init.(*ssa.Call); isCall {
			v.X = negID()
		}
	}
	return v
}

func returnsFreshAlloc(fn *ssa.Function) bool {
	n := 0
	for _, b := range fn.Blocks {
		for _, ins := range b.Instrs {
			if r, ok := ins.(*ssa.Return); ok {
				n++
				if len(r.Results) != 1 {
					return false
				}
				v := r.Results[0]
				// naive form: the result is loaded from the result cell; accept a direct heap Alloc or a load of a cell that
				// is only ever stored heap Allocs
				if a, ok := v.(*ssa.Alloc); ok && a.Heap {
					continue
				}
				if u, ok := v.(*ssa.UnOp); ok {
					if cell, ok := u.X.(*ssa.Alloc); ok && !cell.Heap && onlyStoresAllocs(fn, cell) {
						continue
					}
				}
				return false
			}
		}
	}
	return n > 0
}

func onlyStoresAllocs(fn *ssa.Function, cell *ssa.Alloc) bool {
	n := 0
	for _, b := range fn.Blocks {
		for _, ins := range b.Instrs {
			if st, ok := ins.(*ssa.Store); ok && st.Addr == cell {
				n++
				if a, ok := st.Val.(*ssa.Alloc); !ok || !a.Heap {
					return false
				}
			}
		}
	}
	return n > 0
}

func isErrorType(t types.Type) bool {
	n, ok := t.(*types.Named)
	return ok && n.Obj().Pkg() == nil && n.Obj().Name() == "error"
}

// freshValNamed is freshVal with deterministic symbol names (no counter) so that a constant global has one identity per run.
func freshValNamed(t types.Type, name string, facts *[]*Term) *Val {
	switch kindOf(t) {
	case KStruct:
		st := under(t).(*types.Struct)
		v := &Val{K: KStruct, T: t}
		for i := 0; i < st.NumFields(); i++ {
			v.Fs = append(v.Fs, freshValNamed(st.Field(i).Type(), name+"."+st.Field(i).Name(), facts))
		}
		return v
	case KSlice:
		v := &Val{K: KSlice, T: t, X: Sym(name+"#arr", SInt), Off: Sym(name+"#off", SInt), Len: Sym(name+"#len", SInt), Cap: Sym(name+"#cap", SInt)}
		*facts = append(*facts, Le(Num(0), v.Off), Le(Num(0), v.Len), Le(v.Len, v.Cap))
		return v
	case KPtr:
		x := Sym(name, SInt)
		return mkPtr(t, x)
	case KInt:
		x := Sym(name, SInt)
		lo, hi, _ := intRange(t)
		*facts = append(*facts, Le(lo, x), Le(x, hi))
		return &Val{K: KInt, T: t, X: x}
	case KArr:
		return &Val{K: KArr, T: t, X: Sym(name, sortOf(t))}
	}
	x := Sym(name, sortOf(t))
	return &Val{K: kindOf(t), T: t, X: x}
}

// constCompositeGlobal evaluates the syntactic initialiser of a constant global: constants, other constant globals,
// composite literals of those, big.NewInt(const), errors.New(...), conversions.
func (c *Ctx) constCompositeGlobal(g *ssa.Global, name string, t types.Type) *Val {
	pkg := c.P.PkgByPath[g.Pkg.Pkg.Path()]
	if pkg == nil {
		return nil
	}
	var initExpr ast.Expr
	for _, f := range pkg.Syntax {
		for _, d := range f.Decls {
			gd, ok := d.(*ast.GenDecl)
			if !ok || gd.Tok != token.VAR {
				continue
			}
			for _, sp := range gd.Specs {
				vs := sp.(*ast.ValueSpec)
				for i, n := range vs.Names {
					if n.Name == g.Name() && pkg.TypesInfo.Defs[n] != nil && pkg.TypesInfo.Defs[n].Parent() == pkg.Types.Scope() {
						if i < len(vs.Values) && len(vs.Values) == len(vs.Names) {
							initExpr = vs.Values[i]
						} else if len(vs.Values) == 0 {
							return zeroVal(t) // declared without initialiser
						}
					}
				}
			}
		}
	}
	if initExpr == nil {
		return nil
	}
	return c.evalInitExpr(initExpr, pkg, t, name, 0)
}

func (c *Ctx) evalInitExpr(e ast.Expr, pkg *packages.Package, t types.Type, name string, depth int) *Val {
	if depth > 6 {
		return nil
	}
	info := pkg.TypesInfo
	if tv, ok := info.Types[e]; ok && tv.Value != nil {
		switch tv.Value.Kind() {
		case constant.Int:
			b, _ := new(big.Int).SetString(tv.Value.ExactString(), 10)
			if kindOf(t) == KInt {
				return &Val{K: KInt, T: t, X: NumB(b)}
			}
		case constant.Bool:
			return boolVal(Bool(constant.BoolVal(tv.Value)))
		case constant.String:
			if kindOf(t) == KStr {
				return &Val{K: KStr, T: t, X: c.strLit(constant.StringVal(tv.Value))}
			}
		case constant.Float:
			if kindOf(t) == KInt {
				if i, ok := constant.Int64Val(constant.ToInt(tv.Value)); ok {
					return &Val{K: KInt, T: t, X: Num(i)}
				}
			}
		}
		return nil
	}
	switch x := e.(type) {
	case *ast.ParenExpr:
		return c.evalInitExpr(x.X, pkg, t, name, depth+1)
	case *ast.BinaryExpr:
		if kindOf(t) != KInt {
			return nil
		}
		lt, rt := info.Types[x.X].Type, info.Types[x.Y].Type
		if lt == nil || rt == nil {
			return nil
		}
		if b, ok := lt.Underlying().(*types.Basic); ok && b.Info()&types.IsUntyped != 0 {
			lt = t
		}
		if b, ok := rt.Underlying().(*types.Basic); ok && b.Info()&types.IsUntyped != 0 {
			rt = t
		}
		l := c.evalInitExpr(x.X, pkg, lt, name, depth+1)
		r := c.evalInitExpr(x.Y, pkg, rt, name, depth+1)
		if l == nil || r == nil || !l.X.IsConst() || !r.X.IsConst() {
			return nil
		}
		var v *Term
		switch x.Op {
		case token.ADD:
			v = Add(l.X, r.X)
		case token.SUB:
			v = Sub(l.X, r.X)
		case token.MUL:
			v = Mul(l.X, r.X)
		case token.QUO:
			if r.X.Val.Sign() == 0 {
				return nil
			}
			v = quoT(l.X, r.X)
		case token.REM:
			if r.X.Val.Sign() == 0 {
				return nil
			}
			v = remT(l.X, r.X)
		default:
			return nil
		}
		return &Val{K: KInt, T: t, X: wrap(v, t)}
	case *ast.Ident, *ast.SelectorExpr:
		var obj types.Object
		if id, ok := x.(*ast.Ident); ok {
			obj = info.Uses[id]
		} else {
			obj = info.Uses[x.(*ast.SelectorExpr).Sel]
		}
		if v, ok := obj.(*types.Var); ok && v.Pkg() != nil && v.Parent() == v.Pkg().Scope() {
			if sp := c.P.SSAPkg[v.Pkg().Path()]; sp != nil {
				if og, ok := sp.Members[v.Name()].(*ssa.Global); ok && !c.P.MutGlobals[og] && inModule(v.Pkg().Path()) {
					if cached, ok := globalCache[og]; ok {
						return cached
					}
					oname := strings.TrimPrefix(v.Pkg().Path()+"."+v.Name(), modPath+"/")
					ov := c.constGlobalValue(og, oname, v.Type())
					globalCache[og] = ov
					c.ConstGlobals[oname] = true
					return ov
				}
			}
		}
		return nil
	case *ast.CompositeLit:
		switch u := under(t).(type) {
		case *types.Struct:
			v := zeroVal(t)
			for i, el := range x.Elts {
				fi := i
				val := el
				if kv, ok := el.(*ast.KeyValueExpr); ok {
					kn := kv.Key.(*ast.Ident).Name
					fi = -1
					for k := 0; k < u.NumFields(); k++ {
						if u.Field(k).Name() == kn {
							fi = k
						}
					}
					val = kv.Value
				}
				if fi < 0 || fi >= u.NumFields() {
					return nil
				}
				fv := c.evalInitExpr(val, pkg, u.Field(fi).Type(), name+"."+u.Field(fi).Name(), depth+1)
				if fv == nil {
					var facts []*Term
					fv = freshValNamed(u.Field(fi).Type(), "gval!"+name+"."+u.Field(fi).Name(), &facts)
					for _, f := range facts {
						c.addFact(f)
					}
				}
				v.Fs[fi] = fv
			}
			return v
		case *types.Map:
			if kindOf(u.Key()) != KInt || kindOf(u.Elem()) != KInt {
				return nil
			}
			cm := &constMap{has: ConstArr(SArr(SInt, SBool), TFalse), val: ConstArr(SArr(SInt, SInt), Num(0))}
			seen := map[string]bool{}
			for _, el := range x.Elts {
				kv, ok := el.(*ast.KeyValueExpr)
				if !ok {
					return nil
				}
				kx := c.evalInitExpr(kv.Key, pkg, u.Key(), name, depth+1)
				vx := c.evalInitExpr(kv.Value, pkg, u.Elem(), name, depth+1)
				if kx == nil || vx == nil || !kx.X.IsConst() || !vx.X.IsConst() {
					return nil
				}
				if !seen[kx.X.Val.String()] {
					seen[kx.X.Val.String()] = true
					cm.n++
				}
				cm.has = Store(cm.has, kx.X, TTrue)
				cm.val = Store(cm.val, kx.X, vx.X)
			}
			ref := Num(-int64(1000 + c.typeTag("global:"+name)))
			constMaps[ref.Val.Int64()] = cm
			return &Val{K: KMap, T: t, X: ref}
		case *types.Array, *types.Slice:
			var et types.Type
			if a, ok := u.(*types.Array); ok {
				et = a.Elem()
			} else {
				et = u.(*types.Slice).Elem()
			}
			if kindOf(et) != KInt {
				return nil
			}
			content := ConstArr(SArr(SInt, SInt), Num(0))
			idx := int64(0)
			for _, el := range x.Elts {
				if kv, ok := el.(*ast.KeyValueExpr); ok {
					tv := info.Types[kv.Key]
					if tv.Value == nil {
						return nil
					}
					k, _ := constant.Int64Val(tv.Value)
					idx = k
					el = kv.Value
				}
				ev := c.evalInitExpr(el, pkg, et, name, depth+1)
				if ev == nil || !ev.X.IsConst() {
					return nil
				}
				content = Store(content, Num(idx), ev.X)
				idx++
			}
			if _, ok := u.(*types.Array); ok {
				return &Val{K: KArr, T: t, X: content}
			}
			ref := Num(-int64(1000 + c.typeTag("global:"+name)))
			constSlices[ref.Val.Int64()] = content
			return &Val{K: KSlice, T: t, X: ref, Off: Num(0), Len: Num(idx), Cap: Num(idx)}
		}
	case *ast.CallExpr:
		// conversion T(x)
		if tv, ok := info.Types[x.Fun]; ok && tv.IsType() && len(x.Args) == 1 {
			inner := c.evalInitExpr(x.Args[0], pkg, info.Types[x.Args[0]].Type, name, depth+1)
			if inner != nil && kindOf(t) == KInt && inner.K == KInt {
				return &Val{K: KInt, T: t, X: wrap(inner.X, t)}
			}
			return nil
		}
		fn := ""
		switch f := x.Fun.(type) {
		case *ast.SelectorExpr:
			if o, ok := info.Uses[f.Sel].(*types.Func); ok && o.Pkg() != nil {
				fn = o.Pkg().Path() + "." + o.Name()
			}
		case *ast.Ident:
			if o, ok := info.Uses[f].(*types.Func); ok && o.Pkg() != nil {
				fn = o.Pkg().Path() + "." + o.Name()
			}
		}
		negID := func() *Term { return Num(-int64(1000 + c.typeTag("global:"+name))) }
		// a package-level *big.Int built from constants: big.NewInt(c), new(big.Int).Exp/Sub/Add/Mul/Set(...) of such values
		if isBigIntPtr(t) {
			if b := c.evalBigInit(x, pkg, depth+1); b != nil {
				ref := negID()
				bigConsts[ref.Val.Int64()] = NumB(b)
				return mkPtr(t, ref)
			}
		}
		switch fn {
		case "math/big.NewInt":
			if tv := info.Types[x.Args[0]]; tv.Value != nil {
				b, _ := new(big.Int).SetString(constant.ToInt(tv.Value).ExactString(), 10)
				ref := negID()
				bigConsts[ref.Val.Int64()] = NumB(b)
				return mkPtr(t, ref)
			}
		case "errors.New", "fmt.Errorf", "github.com/pkg/errors.New", "github.com/pkg/errors.Errorf":
			return &Val{K: KIface, T: t, X: negID()}
		}
	}
	return nil
}

func init() {
	_ = fmt.Sprintf
}

// evalBigInit evaluates an initialiser expression of a package-level *big.Int that is built from constants only.
func (c *Ctx) evalBigInit(e ast.Expr, pkg *packages.Package, depth int) *big.Int {
	if depth > 8 {
		return nil
	}
	info := pkg.TypesInfo
	switch x := e.(type) {
	case *ast.ParenExpr:
		return c.evalBigInit(x.X, pkg, depth+1)
	case *ast.Ident, *ast.SelectorExpr:
		// another never-written package-level *big.Int of the module
		var obj types.Object
		if id, ok := x.(*ast.Ident); ok {
			obj = info.Uses[id]
		} else {
			obj = info.Uses[x.(*ast.SelectorExpr).Sel]
		}
		v, ok := obj.(*types.Var)
		if !ok || v.Pkg() == nil || v.Parent() != v.Pkg().Scope() || !inModule(v.Pkg().Path()) || !isBigIntPtr(v.Type()) {
			return nil
		}
		sp := c.P.SSAPkg[v.Pkg().Path()]
		if sp == nil {
			return nil
		}
		og, ok := sp.Members[v.Name()].(*ssa.Global)
		if !ok || c.P.MutGlobals[og] {
			return nil
		}
		oname := strings.TrimPrefix(v.Pkg().Path()+"."+v.Name(), modPath+"/")
		ov, cached := globalCache[og]
		if !cached {
			ov = c.constGlobalValue(og, oname, v.Type())
			globalCache[og] = ov
			c.ConstGlobals[oname] = true
		}
		if ov != nil && ov.X.IsConst() {
			if bv, ok := bigConsts[ov.X.Val.Int64()]; ok && bv.IsConst() {
				return bv.Val
			}
		}
		return nil
	case *ast.CallExpr:
		sel, ok := x.Fun.(*ast.SelectorExpr)
		if !ok {
			return nil
		}
		if o, ok := info.Uses[sel.Sel].(*types.Func); ok && o.Pkg() != nil && o.Pkg().Path() == "math/big" && o.Name() == "NewInt" && len(x.Args) == 1 {
			if tv := info.Types[x.Args[0]]; tv.Value != nil {
				b, ok := new(big.Int).SetString(constant.ToInt(tv.Value).ExactString(), 10)
				if ok {
					return b
				}
			}
			return nil
		}
		// method on new(big.Int) (the receiver's previous value does not matter for these)
		recv, isCall := sel.X.(*ast.CallExpr)
		if !isCall {
			return nil
		}
		if id, ok := recv.Fun.(*ast.Ident); !ok || id.Name != "new" {
			return nil
		}
		arg := func(i int) *big.Int {
			if i >= len(x.Args) {
				return nil
			}
			return c.evalBigInit(x.Args[i], pkg, depth+1)
		}
		switch sel.Sel.Name {
		case "Set":
			return arg(0)
		case "Add", "Sub", "Mul":
			a, b := arg(0), arg(1)
			if a == nil || b == nil {
				return nil
			}
			switch sel.Sel.Name {
			case "Add":
				return new(big.Int).Add(a, b)
			case "Sub":
				return new(big.Int).Sub(a, b)
			}
			return new(big.Int).Mul(a, b)
		case "Exp":
			a, b := arg(0), arg(1)
			if a == nil || b == nil || len(x.Args) != 3 || b.Sign() < 0 || b.BitLen() > 16 {
				return nil
			}
			if id, ok := x.Args[2].(*ast.Ident); !ok || id.Name != "nil" {
				return nil
			}
			return new(big.Int).Exp(a, b, nil)
		}
	}
	return nil
}


// abiDecoded builds the value an ABI decoder writes into a target of type t: a deterministic function of (name, input bytes).
func (fr *Frame) abiDecoded(st *State, t types.Type, path string, name, bv *Term) *Val {
	c := fr.C
	fn := "spec!abidec_" + path
	switch kindOf(t) {
	case KStruct:
		stt := under(t).(*types.Struct)
		v := &Val{K: KStruct, T: t}
		for i := 0; i < stt.NumFields(); i++ {
			f := stt.Field(i)
			sub := path + "_" + f.Name()
			if f.Embedded() {
				sub = path // promoted fields keep the outer parameter type's name space
				if n := namedOf(f.Type()); n != nil {
					sub = n.Obj().Name()
				}
			}
			v.Fs = append(v.Fs, fr.abiDecoded(st, f.Type(), sub, name, bv))
		}
		return v
	case KInt:
		x := App(fn, SInt, name, bv)
		if lo, hi, ok := intRange(t); ok {
			c.addFact(And(Le(lo, x), Le(x, hi)))
		}
		return &Val{K: KInt, T: t, X: x}
	case KBool:
		return boolVal(App(fn, SBool, name, bv))
	case KStr:
		return &Val{K: KStr, T: t, X: App(fn, SStr, name, bv)}
	case KArr:
		if at, ok := under(t).(*types.Array); ok && sortOf(t) != SInt && at.Len() <= 64 && kindOf(at.Elem()) == KInt {
			v := &Val{K: KArr, T: t, X: App(fn+"_arr", sortOf(t), name, bv)}
			c.addFact(Eq(arrAsInt(v), App(fn, SInt, name, bv))) // the specification-level value of the array
			return v
		}
	case KPtr:
		if isBigIntPtr(t) {
			// every *big.Int target in the embedded ABIs is declared uint256 (no signed big type occurs in the ABI definitions):
			// the decoded value is non-negative
			x := App(fn, SInt, name, bv)
			c.addFact(Le(Num(0), x))
			return fr.newBig(st, t, x)
		}
	case KSlice:
		if et := tstr(under(t).(*types.Slice).Elem()); et == "byte" || et == "uint8" {
			ln := App(fn+"_len", SInt, name, bv)
			c.addFact(And(Le(Num(0), ln), Le(ln, Pow2(40))))
			out := fr.makeSlice(st, t, ln, ln)
			content := App(fn+"_bytes", SArr(SInt, SInt), name, bv)
			hp := st.heapGet("S:byte", SArr(SInt, SArr(SInt, SInt)))
			st.heapSet("S:byte", Store(hp, out.X, content))
			return out
		}
	}
	var facts []*Term
	v := freshVal(t, "abi.unpacked."+path, &facts)
	for _, f := range facts {
		c.addFact(f)
	}
	if v.K == KSlice && v.Len != nil {
		// a list of anything else: unspecified elements, but its length is a function of the input (abidec_<path>_len)
		c.addFact(Eq(v.Len, App(fn+"_len", SInt, name, bv)))
	}
	return v
}

// packArgs reads the variadic arguments of a Pack call by value: integers, booleans, strings, byte arrays (also through a
// pointer), byte slices (as abstract byte strings) and *big.Int (its value). ok is false when the argument list is not a
// literal list at the call site or holds a kind that is not modelled.
func (fr *Frame) packArgs(st *State, v ssa.Value) (args []*Term, sig string, ok bool) {
	if cst, isC := v.(*ssa.Const); isC && cst.Value == nil {
		return nil, "0", true // no arguments
	}
	sl, isS := v.(*ssa.Slice)
	if !isS {
		return nil, "", false
	}
	al, isA := sl.X.(*ssa.Alloc)
	if !isA {
		return nil, "", false
	}
	at, isArr := under(al.Type().(*types.Pointer).Elem()).(*types.Array)
	if !isArr {
		return nil, "", false
	}
	elems := make([]ssa.Value, at.Len())
	for _, r := range *al.Referrers() {
		ia, isIA := r.(*ssa.IndexAddr)
		if !isIA {
			continue
		}
		k, isK := ia.Index.(*ssa.Const)
		if !isK {
			return nil, "", false
		}
		for _, r2 := range *ia.Referrers() {
			if sto, isSt := r2.(*ssa.Store); isSt && sto.Addr == ia {
				elems[k.Int64()] = sto.Val
			}
		}
	}
	bytesHeap := func() *Term { return st.heapGet("S:byte", SArr(SInt, SArr(SInt, SInt))) }
	for _, e := range elems {
		mi, isMI := e.(*ssa.MakeInterface)
		if !isMI {
			return nil, "", false
		}
		x := fr.val(st, mi.X)
		t := mi.X.Type()
		switch x.K {
		case KInt:
			args, sig = append(args, x.X), sig+"I"
		case KBool:
			args, sig = append(args, x.X), sig+"B"
		case KStr:
			args, sig = append(args, x.X), sig+"S"
		case KArr:
			if at, ok := under(t).(*types.Array); !ok || sortOf(t) == SInt || at.Len() > 64 || kindOf(at.Elem()) != KInt {
				return nil, "", false
			}
			args, sig = append(args, arrAsInt(x)), sig+"I"
		case KSlice:
			if tstr(under(t).(*types.Slice).Elem()) != "byte" && tstr(under(t).(*types.Slice).Elem()) != "uint8" {
				// a list of anything else enters the packed value through its length and an unspecified token standing for
				// its elements (fresh per call: two packed lists are never assumed equal)
				args, sig = append(args, x.Len, Fresh("abi.list", SInt)), sig+"L"
				continue
			}
			args, sig = append(args, fr.C.bytesVal(Select(bytesHeap(), x.X), x.Off, x.Len)), sig+"I"
		case KPtr:
			if isBigIntPtr(t) {
				args, sig = append(args, bigval(st, x.X)), sig+"I"
				continue
			}
			el := under(t).(*types.Pointer).Elem()
			switch kindOf(el) {
			case KArr:
				if at := under(el).(*types.Array); x.Cell != nil || sortOf(el) == SInt || at.Len() > 64 || kindOf(at.Elem()) != KInt {
					return nil, "", false
				}
				args, sig = append(args, arrAsInt(fr.load(st, x, el))), sig+"I"
			case KStr:
				if x.Cell != nil {
					return nil, "", false
				}
				args, sig = append(args, fr.load(st, x, el).X), sig+"S"
			default:
				return nil, "", false
			}
		default:
			return nil, "", false
		}
	}
	return args, sig, true
}

package main

// Symbolic values and the heap model.

import (
	"fmt"
	"go/types"
	"strings"

	"golang.org/x/tools/go/ssa"
)

type Kind int

const (
	KInt Kind = iota
	KBool
	KStr
	KPtr
	KIface
	KSlice
	KStruct
	KArr
	KTuple
	KMap
	KFunc
	KUnit
	KMath // unbounded spec integer
	KOpaque
)

type Val struct {
	K  Kind
	T  types.Type
	X  *Term  // scalar value / ref id / array value
	Fs []*Val // struct fields, tuple elems
	// slices: X = backing array id
	Off, Len, Cap *Term
	// pointers
	Root  string     // "T:<type>" object root or "S:<elemtype>" slice/array backing
	Path  string     // leaf path prefix inside root
	Idx   *Term      // element index for S roots or array leaves
	Cell  *ssa.Alloc // pointer into a local cell
	CPath []int      // field path inside the cell
	Frame *Frame     // frame owning the cell
	// functions
	Fn    *ssa.Function
	Binds []*Val
	Pkg   *types.Package // carrier for the scope of contract evaluation
}

func tstr(t types.Type) string {
	return types.TypeString(t, func(p *types.Package) string {
		return strings.TrimPrefix(strings.TrimPrefix(p.Path(), modPath+"/"), modPath)
	})
}

func under(t types.Type) types.Type { return t.Underlying() }

func isBigIntPtr(t types.Type) bool {
	p, ok := t.(*types.Pointer)
	if !ok {
		return false
	}
	n, ok := p.Elem().(*types.Named)
	return ok && n.Obj().Pkg() != nil && n.Obj().Pkg().Path() == "math/big" && n.Obj().Name() == "Int"
}

func kindOf(t types.Type) Kind {
	switch u := under(t).(type) {
	case *types.Basic:
		switch {
		case u.Info()&types.IsBoolean != 0:
			return KBool
		case u.Info()&types.IsString != 0:
			return KStr
		case u.Info()&types.IsInteger != 0:
			return KInt
		case u.Kind() == types.UnsafePointer:
			return KPtr
		case u.Kind() == types.UntypedNil:
			return KPtr
		}
		return KOpaque // floats, complex
	case *types.Pointer:
		return KPtr
	case *types.Interface:
		return KIface
	case *types.Slice:
		return KSlice
	case *types.Struct:
		return KStruct
	case *types.Array:
		return KArr
	case *types.Tuple:
		return KTuple
	case *types.Map:
		return KMap
	case *types.Signature:
		return KFunc
	case *types.Chan:
		return KOpaque
	}
	return KOpaque
}

func sortOf(t types.Type) *Sort {
	switch kindOf(t) {
	case KBool:
		return SBool
	case KStr:
		return SStr
	case KArr:
		a := under(t).(*types.Array)
		k := kindOf(a.Elem())
		if k == KStruct || k == KArr || k == KSlice {
			return SInt // opaque blob
		}
		return SArr(SInt, sortOf(a.Elem()))
	}
	return SInt
}

func intRange(t types.Type) (lo, hi *Term, ok bool) {
	b, isb := under(t).(*types.Basic)
	if !isb || b.Info()&types.IsInteger == 0 {
		return nil, nil, false
	}
	bits, signed := intBits(b)
	if signed {
		return Neg(Pow2(bits - 1)), Sub(Pow2(bits-1), Num(1)), true
	}
	return Num(0), Sub(Pow2(bits), Num(1)), true
}

func intBits(b *types.Basic) (uint, bool) {
	switch b.Kind() {
	case types.Int8:
		return 8, true
	case types.Int16:
		return 16, true
	case types.Int32:
		return 32, true
	case types.Int64, types.Int, types.UntypedInt, types.UntypedRune:
		return 64, true
	case types.Uint8:
		return 8, false
	case types.Uint16:
		return 16, false
	case types.Uint32:
		return 32, false
	case types.Uint64, types.Uint, types.Uintptr:
		return 64, false
	}
	return 64, true
}

// wrap reduces a mathematical integer term to the range of Go type t.
func wrap(x *Term, t types.Type) *Term {
	b, isb := under(t).(*types.Basic)
	if !isb || b.Info()&types.IsInteger == 0 {
		return x
	}
	bits, signed := intBits(b)
	m := Pow2(bits)
	if x.IsConst() {
		lo, hi, _ := intRange(t)
		if x.Val.Cmp(lo.Val) >= 0 && x.Val.Cmp(hi.Val) <= 0 {
			return x
		}
	}
	if !signed {
		return Mod(x, m)
	}
	h := Pow2(bits - 1)
	return Sub(Mod(Add(x, h), m), h)
}

func zeroTerm(s *Sort) *Term {
	switch {
	case s == SInt:
		return Num(0)
	case s == SBool:
		return TFalse
	case s == SStr:
		return Sym("str!empty", SStr)
	case s.IsArr():
		return ConstArr(s, zeroTerm(s.Elem))
	}
	panic("zeroTerm")
}

func zeroVal(t types.Type) *Val {
	switch kindOf(t) {
	case KStruct:
		st := under(t).(*types.Struct)
		v := &Val{K: KStruct, T: t}
		for i := 0; i < st.NumFields(); i++ {
			v.Fs = append(v.Fs, zeroVal(st.Field(i).Type()))
		}
		return v
	case KSlice:
		return &Val{K: KSlice, T: t, X: Num(0), Off: Num(0), Len: Num(0), Cap: Num(0)}
	case KPtr:
		return mkPtr(t, Num(0))
	case KTuple:
		tp := t.(*types.Tuple)
		v := &Val{K: KTuple, T: t}
		for i := 0; i < tp.Len(); i++ {
			v.Fs = append(v.Fs, zeroVal(tp.At(i).Type()))
		}
		return v
	}
	return &Val{K: kindOf(t), T: t, X: zeroTerm(sortOf(t))}
}

// mkPtr builds a root pointer of static type t (a pointer type) with reference id x.
func mkPtr(t types.Type, x *Term) *Val {
	v := &Val{K: KPtr, T: t, X: x}
	if p, ok := under(t).(*types.Pointer); ok {
		v.Root = rootKey(p.Elem())
	} else {
		v.Root = "T:unsafe"
	}
	return v
}

func rootKey(elem types.Type) string {
	if a, ok := under(elem).(*types.Array); ok {
		return "S:" + tstr(a.Elem())
	}
	return "T:" + tstr(elem)
}

// freshVal creates an unconstrained symbolic value of type t; facts receives type-range constraints.
func freshVal(t types.Type, name string, facts *[]*Term) *Val {
	switch kindOf(t) {
	case KStruct:
		st := under(t).(*types.Struct)
		v := &Val{K: KStruct, T: t}
		for i := 0; i < st.NumFields(); i++ {
			v.Fs = append(v.Fs, freshVal(st.Field(i).Type(), name+"."+st.Field(i).Name(), facts))
		}
		return v
	case KTuple:
		tp := t.(*types.Tuple)
		v := &Val{K: KTuple, T: t}
		for i := 0; i < tp.Len(); i++ {
			v.Fs = append(v.Fs, freshVal(tp.At(i).Type(), fmt.Sprintf("%s.%d", name, i), facts))
		}
		return v
	case KSlice:
		v := &Val{K: KSlice, T: t, X: Fresh(name+"#arr", SInt), Off: Fresh(name+"#off", SInt), Len: Fresh(name+"#len", SInt), Cap: Fresh(name+"#cap", SInt)}
		*facts = append(*facts, Le(Num(0), v.Off), Le(Num(0), v.Len), Le(v.Len, v.Cap), Le(v.Cap, Pow2(62)), Le(v.Off, Pow2(62)),
			Implies(Eq(v.X, Num(0)), Eq(v.Cap, Num(0))))
		return v
	case KPtr:
		// references may be negative: package-level constant objects have negative ids
		x := Fresh(name, SInt)
		return mkPtr(t, x)
	case KInt:
		x := Fresh(name, SInt)
		lo, hi, _ := intRange(t)
		*facts = append(*facts, Le(lo, x), Le(x, hi))
		return &Val{K: KInt, T: t, X: x}
	case KIface, KMap, KFunc, KOpaque:
		x := Fresh(name, SInt)
		return &Val{K: kindOf(t), T: t, X: x}
	case KArr:
		x := Fresh(name, sortOf(t))
		v := &Val{K: KArr, T: t, X: x}
		return v
	}
	return &Val{K: kindOf(t), T: t, X: Fresh(name, sortOf(t))}
}

func iteVal(c *Term, a, b *Val) *Val {
	if a == b || c.IsTrue() {
		return a
	}
	if c.IsFalse() {
		return b
	}
	if a == nil || b == nil {
		if a == nil {
			return b
		}
		return a
	}
	if a.K != b.K {
		panic(unsupported{fmt.Sprintf("value kind mismatch at a join (%v / %v)", a.T, b.T)})
	}
	switch a.K {
	case KStruct, KTuple:
		v := &Val{K: a.K, T: a.T}
		for i := range a.Fs {
			v.Fs = append(v.Fs, iteVal(c, a.Fs[i], b.Fs[i]))
		}
		return v
	case KSlice:
		return &Val{K: KSlice, T: a.T, X: Ite(c, a.X, b.X), Off: Ite(c, a.Off, b.Off), Len: Ite(c, a.Len, b.Len), Cap: Ite(c, a.Cap, b.Cap)}
	case KPtr:
		if a.Cell != nil || b.Cell != nil {
			if a.Cell == b.Cell && fmt.Sprint(a.CPath) == fmt.Sprint(b.CPath) && a.Idx == b.Idx {
				return a
			}
			panic(unsupported{"merging distinct cell pointers at a join"})
		}
		if a.Root != b.Root || a.Path != b.Path {
			// nil pointers take the shape of the other side
			if a.X.IsConst() && a.X.Val.Sign() == 0 && a.Idx == nil {
				a = &Val{K: KPtr, T: b.T, X: a.X, Root: b.Root, Path: b.Path, Idx: b.Idx}
			} else if b.X.IsConst() && b.X.Val.Sign() == 0 && b.Idx == nil {
				b = &Val{K: KPtr, T: a.T, X: b.X, Root: a.Root, Path: a.Path, Idx: a.Idx}
			} else {
				panic(unsupported{fmt.Sprintf("merging pointers with different shapes at a join: %s.%s / %s.%s", a.Root, a.Path, b.Root, b.Path)})
			}
		}
		v := &Val{K: KPtr, T: a.T, X: Ite(c, a.X, b.X), Root: a.Root, Path: a.Path}
		if a.Idx != nil || b.Idx != nil {
			ai, bi := a.Idx, b.Idx
			if ai == nil {
				ai = Num(0)
			}
			if bi == nil {
				bi = Num(0)
			}
			v.Idx = Ite(c, ai, bi)
		}
		return v
	case KFunc:
		if a.Fn != b.Fn {
			return &Val{K: KFunc, T: a.T, X: Ite(c, a.X, b.X)}
		}
		return a
	}
	if a.X == b.X {
		return a
	}
	return &Val{K: a.K, T: a.T, X: Ite(c, a.X, b.X)}
}

// eqVal builds the equality of two values of the same type (Go == semantics on comparable values; extensional on arrays).
func eqVal(a, b *Val) *Term {
	switch a.K {
	case KStruct, KTuple:
		var cs []*Term
		for i := range a.Fs {
			cs = append(cs, eqVal(a.Fs[i], b.Fs[i]))
		}
		return And(cs...)
	case KSlice:
		// only comparison with nil is legal in Go
		if b.X.IsConst() && b.Len.IsConst() {
			return Eq(a.X, Num(0))
		}
		if a.X.IsConst() && a.Len.IsConst() {
			return Eq(b.X, Num(0))
		}
		return And(Eq(a.X, b.X), Eq(a.Off, b.Off), Eq(a.Len, b.Len))
	case KPtr:
		if a.Cell != nil || b.Cell != nil {
			return Bool(a.Cell == b.Cell)
		}
		c := Eq(a.X, b.X)
		if a.Idx != nil && b.Idx != nil {
			c = And(c, Eq(a.Idx, b.Idx))
		}
		return c
	}
	if a.X.S != b.X.S {
		panic(fmt.Sprintf("eqVal sort mismatch: %v(%s) vs %v(%s)", a.T, a.X.S, b.T, b.X.S))
	}
	if a.K == KArr || b.K == KArr {
		return eqArr(a, b)
	}
	return Eq(a.X, b.X)
}

// eqArr: Go array equality compares exactly the N elements (the SMT arrays may differ outside [0,N)).
func eqArr(a, b *Val) *Term {
	if a.X == b.X {
		return TTrue
	}
	var at *types.Array
	if t, ok := under(a.T).(*types.Array); ok {
		at = t
	} else if t, ok := under(b.T).(*types.Array); ok {
		at = t
	}
	if at == nil || !a.X.S.IsArr() {
		return Eq(a.X, b.X)
	}
	n := at.Len()
	if n <= 64 {
		var cs []*Term
		for i := int64(0); i < n; i++ {
			cs = append(cs, Eq(Select(a.X, Num(i)), Select(b.X, Num(i))))
		}
		return And(cs...)
	}
	q := BoundVar("i", SInt)
	return Forall([]*Term{q}, Implies(And(Le(Num(0), q), Lt(q, Num(n))), Eq(Select(a.X, q), Select(b.X, q))))
}

// ---------------------------------------------------------------------------------------------
// Heap

type State struct {
	R     *Term
	Cells map[*ssa.Alloc]*Val
	Heap  map[string]*Term
	Epoch int
	Alloc *Term
	Ghost map[string]*Term
	// Unframed is set once an unknown call has havoced the whole heap (frame obligations then cannot be discharged)
	Unframed *Term
}

// Epochs describe what is known about heap keys that have no explicit entry in State.Heap.
type epochRec struct {
	kind      string // root | havoc | merge
	parent    *State // havoc: state before
	all       bool
	write     []string        // key prefixes havoced
	freshOnly map[string]bool // prefixes whose writes only hit objects allocated after allocBound
	allocBnd  *Term
	conds     []*Term // merge
	parents   []*State
	cache     map[string]*Term
}

var epochs = map[int]*epochRec{0: {kind: "root", cache: map[string]*Term{}}}
var epochSeq int

func newEpoch(r *epochRec) int {
	epochSeq++
	r.cache = map[string]*Term{}
	epochs[epochSeq] = r
	return epochSeq
}

func resetHeapModel() {
	epochs = map[int]*epochRec{0: {kind: "root", cache: map[string]*Term{}}}
	epochSeq = 0
	heapSorts = map[string]*Sort{}
	globalFacts = nil
	typeFacts = nil
	typeFactSeen = map[int]bool{}
}

func (s *State) clone() *State {
	n := &State{R: s.R, Epoch: s.Epoch, Alloc: s.Alloc, Unframed: s.Unframed, Cells: make(map[*ssa.Alloc]*Val, len(s.Cells)), Heap: make(map[string]*Term, len(s.Heap)), Ghost: map[string]*Term{}}
	for k, v := range s.Cells {
		n.Cells[k] = v
	}
	for k, v := range s.Heap {
		n.Heap[k] = v
	}
	for k, v := range s.Ghost {
		n.Ghost[k] = v
	}
	return n
}

// heapSorts remembers the SMT sort of every heap key.
var heapSorts = map[string]*Sort{}

func matchPrefix(prefixes []string, key string) (string, bool) {
	for _, p := range prefixes {
		if key == p || strings.HasPrefix(key, p+".") || strings.HasPrefix(key, p+"#") {
			return p, true
		}
		// "MF:pkg.Type.name*": every model field of the type whose name starts with `name`
		if strings.HasSuffix(p, "*") && strings.HasPrefix(key, strings.TrimSuffix(p, "*")) {
			return p, true
		}
	}
	return "", false
}

func (s *State) heapGet(key string, srt *Sort) *Term {
	if t, ok := s.Heap[key]; ok {
		return t
	}
	if old, ok := heapSorts[key]; ok && old != srt {
		panic(fmt.Sprintf("heap key %s used at two sorts %s / %s", key, old, srt))
	}
	heapSorts[key] = srt
	return epochBase(s.Epoch, key, srt)
}

func epochBase(e int, key string, srt *Sort) *Term {
	r := epochs[e]
	if t, ok := r.cache[key]; ok {
		return t
	}
	var t *Term
	switch r.kind {
	case "root":
		t = Sym("H0!"+key, srt)
	case "havoc":
		pfx, hit := matchPrefix(r.write, key)
		if r.all || hit {
			t = Sym(fmt.Sprintf("H%d!%s", e, key), srt)
			if !r.all && r.freshOnly[pfx] && srt.Idx == SInt {
				// objects allocated before the havoc point are untouched
				q := BoundVar("r", SInt)
				old := r.parent.heapGet(key, srt)
				globalFacts = append(globalFacts, Forall([]*Term{q}, Implies(Lt(q, r.allocBnd), Eq(Select(t, q), Select(old, q)))))
			}
		} else {
			t = r.parent.heapGet(key, srt)
		}
	case "merge":
		t = r.parents[len(r.parents)-1].heapGet(key, srt)
		for i := len(r.parents) - 2; i >= 0; i-- {
			t = Ite(r.conds[i], r.parents[i].heapGet(key, srt), t)
		}
	}
	r.cache[key] = t
	return t
}

func (s *State) heapSet(key string, t *Term) {
	heapSorts[key] = t.S
	s.Heap[key] = t
}

// havocAll models a call about which nothing is known.
func (s *State) havocAll() {
	par := s.clone()
	s.Heap = map[string]*Term{}
	s.Epoch = newEpoch(&epochRec{kind: "havoc", parent: par, all: true})
	a := Fresh("alloc", SInt)
	nonNegSyms[a.Name] = true
	globalFacts = append(globalFacts, Le(s.Alloc, a))
	s.Alloc = a
	s.Unframed = Or(s.Unframed, s.R)
}

// havocKeys forgets the contents of the heap arrays whose key matches one of the prefixes.
func (s *State) havocKeys(prefixes []string, freshOnly map[string]bool) {
	if len(prefixes) == 0 {
		return
	}
	par := s.clone()
	for k := range s.Heap {
		if _, hit := matchPrefix(prefixes, k); hit {
			delete(s.Heap, k)
		}
	}
	s.Epoch = newEpoch(&epochRec{kind: "havoc", parent: par, write: prefixes, freshOnly: freshOnly, allocBnd: par.Alloc})
	a := Fresh("alloc", SInt)
	globalFacts = append(globalFacts, Le(s.Alloc, a))
	s.Alloc = a
}

func mergeStates(conds []*Term, sts []*State) *State {
	if len(sts) == 1 {
		n := sts[0].clone()
		n.R = conds[0]
		return n
	}
	n := &State{Cells: map[*ssa.Alloc]*Val{}, Heap: map[string]*Term{}, Ghost: map[string]*Term{}}
	n.R = Or(conds...)
	same := true
	for _, s := range sts[1:] {
		if s.Epoch != sts[0].Epoch {
			same = false
		}
	}
	keys := map[string]bool{}
	for _, s := range sts {
		for k := range s.Heap {
			keys[k] = true
		}
	}
	if same {
		n.Epoch = sts[0].Epoch
	} else {
		n.Epoch = newEpoch(&epochRec{kind: "merge", conds: conds, parents: sts})
	}
	for k := range keys {
		srt := heapSorts[k]
		t := sts[len(sts)-1].heapGet(k, srt)
		for i := len(sts) - 2; i >= 0; i-- {
			t = Ite(conds[i], sts[i].heapGet(k, srt), t)
		}
		n.Heap[k] = t
	}
	a := sts[len(sts)-1].Alloc
	uf := sts[len(sts)-1].Unframed
	for i := len(sts) - 2; i >= 0; i-- {
		a = Ite(conds[i], sts[i].Alloc, a)
		uf = Or(uf, sts[i].Unframed)
	}
	n.Alloc = a
	n.Unframed = uf
	ck := map[*ssa.Alloc]bool{}
	for _, s := range sts {
		for c := range s.Cells {
			ck[c] = true
		}
	}
	for c := range ck {
		var v *Val
		first := true
		for i := len(sts) - 1; i >= 0; i-- {
			cv, ok := sts[i].Cells[c]
			if !ok {
				continue
			}
			if first {
				v = cv
				first = false
			} else {
				v = iteVal(conds[i], cv, v)
			}
		}
		n.Cells[c] = v
	}
	gk := map[string]bool{}
	for _, s := range sts {
		for g := range s.Ghost {
			gk[g] = true
		}
	}
	for g := range gk {
		var t *Term
		for i := len(sts) - 1; i >= 0; i-- {
			gv, ok := sts[i].Ghost[g]
			if !ok {
				continue
			}
			if t == nil {
				t = gv
			} else {
				t = Ite(conds[i], gv, t)
			}
		}
		n.Ghost[g] = t
	}
	return n
}

type leaf struct {
	path string
	t    types.Type
}

// leavesOf flattens type t below path into scalar leaves.
func leavesOf(t types.Type, path string, out *[]leaf) {
	switch u := under(t).(type) {
	case *types.Struct:
		for i := 0; i < u.NumFields(); i++ {
			leavesOf(u.Field(i).Type(), path+"."+u.Field(i).Name(), out)
		}
	case *types.Slice:
		*out = append(*out, leaf{path + "#arr", types.Typ[types.Int]}, leaf{path + "#off", types.Typ[types.Int]}, leaf{path + "#len", types.Typ[types.Int]}, leaf{path + "#cap", types.Typ[types.Int]})
	default:
		*out = append(*out, leaf{path, t})
	}
}

func heapKey(root, path string) string { return root + path }

// loadAt reads a value of type t located at (root,path) for object ref (and element idx for S roots).
func (s *State) loadAt(root, path string, ref, idx *Term, t types.Type) *Val {
	isS := strings.HasPrefix(root, "S:")
	rd := func(p string, lt types.Type) *Term {
		srt := sortOf(lt)
		if isS {
			arr := s.heapGet(heapKey(root, p), SArr(SInt, SArr(SInt, srt)))
			return Select(Select(arr, ref), idx)
		}
		arr := s.heapGet(heapKey(root, p), SArr(SInt, srt))
		return Select(arr, ref)
	}
	switch u := under(t).(type) {
	case *types.Struct:
		v := &Val{K: KStruct, T: t}
		for i := 0; i < u.NumFields(); i++ {
			v.Fs = append(v.Fs, s.loadAt(root, path+"."+u.Field(i).Name(), ref, idx, u.Field(i).Type()))
		}
		return v
	case *types.Slice:
		v := &Val{K: KSlice, T: t, X: rd(path+"#arr", types.Typ[types.Int]), Off: rd(path+"#off", types.Typ[types.Int]), Len: rd(path+"#len", types.Typ[types.Int]), Cap: rd(path+"#cap", types.Typ[types.Int])}
		if v.Len.Op == "select" {
			addTypeFact(And(Lt(v.X, s.Alloc), Le(Num(0), v.Off), Le(Num(0), v.Len), Le(v.Len, v.Cap), Le(v.Cap, Pow2(62)), Le(v.Off, Pow2(62)), Implies(Eq(v.X, Num(0)), Eq(v.Cap, Num(0)))))
		}
		return v
	case *types.Pointer:
		x := rd(path, t)
		if x.Op == "select" {
			addTypeFact(Lt(x, s.Alloc)) // the heap holds references to allocated objects only
		}
		return mkPtr(t, x)
	case *types.Interface, *types.Map:
		x := rd(path, t)
		if x.Op == "select" {
			addTypeFact(Lt(x, s.Alloc))
		}
		return &Val{K: kindOf(t), T: t, X: x}
	}
	x := rd(path, t)
	v := &Val{K: kindOf(t), T: t, X: x}
	if lo, hi, ok := intRange(t); ok && x.Op == "select" {
		addTypeFact(And(Le(lo, x), Le(x, hi)))
	}
	return v
}

func (s *State) storeAt(root, path string, ref, idx *Term, t types.Type, v *Val) {
	isS := strings.HasPrefix(root, "S:")
	wr := func(p string, lt types.Type, x *Term) {
		srt := sortOf(lt)
		if x.S != srt {
			panic(fmt.Sprintf("storeAt %s%s: sort %s, want %s", root, p, x.S, srt))
		}
		if isS {
			k := heapKey(root, p)
			arr := s.heapGet(k, SArr(SInt, SArr(SInt, srt)))
			s.heapSet(k, Store(arr, ref, Store(Select(arr, ref), idx, x)))
			return
		}
		k := heapKey(root, p)
		arr := s.heapGet(k, SArr(SInt, srt))
		s.heapSet(k, Store(arr, ref, x))
	}
	switch u := under(t).(type) {
	case *types.Struct:
		for i := 0; i < u.NumFields(); i++ {
			s.storeAt(root, path+"."+u.Field(i).Name(), ref, idx, u.Field(i).Type(), v.Fs[i])
		}
		return
	case *types.Slice:
		wr(path+"#arr", types.Typ[types.Int], v.X)
		wr(path+"#off", types.Typ[types.Int], v.Off)
		wr(path+"#len", types.Typ[types.Int], v.Len)
		wr(path+"#cap", types.Typ[types.Int], v.Cap)
		return
	}
	wr(path, t, v.X)
}

var typeFacts []*Term
var typeFactSeen = map[int]bool{}

func addTypeFact(t *Term) {
	if hasBound(t) {
		return
	}
	if typeFactSeen[t.id] {
		return
	}
	typeFactSeen[t.id] = true
	typeFacts = append(typeFacts, t)
	globalFacts = append(globalFacts, t)
}

// elemRangeFact adds the range of an array element read (elements of integer arrays are within their type's range).
func elemRangeFact(x *Term, et types.Type) {
	if lo, hi, ok := intRange(et); ok && x.Op == "select" {
		addTypeFact(And(Le(lo, x), Le(x, hi)))
	}
}

// globalFacts accumulates unconditional facts about fresh symbols (type ranges, axioms instances).
var globalFacts []*Term

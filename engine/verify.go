package main

// Top-level verification of functions under contract and of lemmas.

import (
	"fmt"
	"go/types"
	"sort"
	"strings"

	"golang.org/x/tools/go/ssa"
)

type FuncReport struct {
	Name        string
	Encoding    string
	Obligations int
	Error       string
	Returns     int
}

func relPkg(p string) string { return strings.TrimPrefix(strings.TrimPrefix(p, modPath+"/"), modPath) }

func (c *Ctx) recoverFn(name string, rep *FuncReport) {
	if r := recover(); r != nil {
		switch e := r.(type) {
		case unsupported:
			rep.Error = "unsupported: " + e.msg
		case specError:
			rep.Error = "spec: " + e.msg
		default:
			panic(r)
		}
	}
}

// registerInputs records scalar entry values for counterexample extraction.
func (c *Ctx) registerInputs(name string, v *Val, st *State) { c.registerInputsD(name, v, st, 0) }

func (c *Ctx) registerInputsD(name string, v *Val, st *State, depth int) {
	if len(c.Inputs) > 3000 {
		return
	}
	switch v.K {
	case KInt, KBool, KMath:
		c.Inputs[name] = v.X
	case KArr:
		if a, ok := under(v.T).(*types.Array); ok && a.Len() <= 32 && kindOf(a.Elem()) == KInt {
			for i := int64(0); i < a.Len(); i++ {
				c.Inputs[fmt.Sprintf("%s[%d]", name, i)] = Select(v.X, Num(i))
			}
		}
	case KPtr:
		c.Inputs[name] = v.X
		if isBigIntPtr(v.T) {
			c.Inputs[name+".val"] = bigval(st, v.X)
			return
		}
		if depth >= 2 || v.Cell != nil {
			return
		}
		if pt, ok := under(v.T).(*types.Pointer); ok {
			if stt, ok := under(pt.Elem()).(*types.Struct); ok {
				for i := 0; i < stt.NumFields(); i++ {
					ft := stt.Field(i).Type()
					switch kindOf(ft) {
					case KInt, KBool, KPtr, KArr, KStruct:
						if n, isN := ft.(*types.Named); isN && n.Obj().Pkg() != nil && !inModule(n.Obj().Pkg().Path()) && !isBigIntPtr(ft) {
							continue
						}
						fv := st.loadAt(v.Root, v.Path+"."+stt.Field(i).Name(), v.X, nil, ft)
						c.registerInputsD(name+"."+stt.Field(i).Name(), fv, st, depth+1)
					case KSlice:
						fv := st.loadAt(v.Root, v.Path+"."+stt.Field(i).Name(), v.X, nil, ft)
						c.Inputs[name+"."+stt.Field(i).Name()+".len"] = fv.Len
					}
				}
			}
		}
	case KSlice:
		c.Inputs[name+".len"] = v.Len
		if et := under(v.T).(*types.Slice).Elem(); kindOf(et) == KInt {
			arr := st.heapGet("S:"+tstr(et), SArr(SInt, SArr(SInt, SInt)))
			for i := int64(0); i < 16; i++ {
				c.Inputs[fmt.Sprintf("%s[%d]", name, i)] = Select(Select(arr, v.X), Add(v.Off, Num(i)))
			}
		}
	case KIface, KMap:
		c.Inputs[name] = v.X
	case KStruct:
		stt := under(v.T).(*types.Struct)
		for i, f := range v.Fs {
			c.registerInputsD(name+"."+stt.Field(i).Name(), f, st, depth)
		}
	}
}

func (c *Ctx) allocFacts(v *Val, alloc0 *Term) {
	switch v.K {
	case KPtr, KIface, KMap, KFunc:
		if v.Cell == nil {
			c.addFact(Lt(v.X, alloc0))
		}
	case KSlice:
		c.addFact(Lt(v.X, alloc0))
	case KStruct, KTuple:
		for _, f := range v.Fs {
			c.allocFacts(f, alloc0)
		}
	}
}

func (c *Ctx) VerifyFunc(pkgPath, key string) (rep *FuncReport) {
	name := relPkg(pkgPath) + "." + key
	rep = &FuncReport{Name: name, Encoding: "int (mathematical integers with explicit wrap-around)"}
	con := c.S.Contracts[pkgPath+"."+key]
	fn := c.P.LookupFunc(pkgPath, key)
	if fn == nil {
		rep.Error = "contract-target-missing"
		return
	}
	if con == nil {
		rep.Error = "no contract"
		return
	}
	defer c.recoverFn(name, rep)
	resetHeapModel()
	resetGlobals()
	c.curFunc = name
	c.curTop = fn
	c.Inputs = map[string]*Term{}
	nobs := len(c.Obs)
	fr := c.newFrame(fn, 0)
	fr.Con = con
	fr.Top = true
	fr.Safety = con.Safety
	alloc0 := Sym("alloc0", SInt)
	nonNegSyms["alloc0"] = true
	c.addFact(Le(Num(1), alloc0))
	st := &State{R: TTrue, Cells: map[*ssa.Alloc]*Val{}, Heap: map[string]*Term{}, Ghost: map[string]*Term{}, Alloc: alloc0, Unframed: TFalse}
	fr.Entry = st.clone()
	var args []*Val
	env := map[string]*Val{}
	for i, p := range fn.Params {
		var facts []*Term
		v := freshVal(p.Type(), "in!"+p.Name(), &facts)
		for _, f := range facts {
			c.addFact(f)
		}
		c.allocFacts(v, alloc0)
		args = append(args, v)
		pname := p.Name()
		if i < len(con.Params) && con.Params[i] != "_" {
			env[con.Params[i]] = v
			pname = con.Params[i]
			if fr.ParamAlias == nil {
				fr.ParamAlias = map[string]string{}
			}
			fr.ParamAlias[pname] = p.Name()
		}
		c.registerInputs(pname, v, st)
	}
	// free variables of closures: unconstrained pointers to cells are not supported; treat as fresh heap pointers
	if len(fn.FreeVars) > 0 {
		cl := &Val{K: KFunc, Fn: fn}
		for _, fv := range fn.FreeVars {
			var facts []*Term
			v := freshVal(fv.Type(), "free!"+fv.Name(), &facts)
			for _, f := range facts {
				c.addFact(f)
			}
			c.allocFacts(v, alloc0)
			cl.Binds = append(cl.Binds, v)
		}
		fr.Closure = cl
	}
	if fn.Signature.Recv() != nil && len(args) > 0 {
		env["self"] = args[0]
	}
	fr.envTop = env
	for i, p := range fn.Params {
		fr.Params[p.Name()] = args[i]
	}
	// requires
	for _, rq := range con.Requires {
		g := fr.evalBool(rq.Expr, st, st, env)
		c.addFact(g)
	}
	for _, ga := range c.S.Globals {
		// a global assumption is brought in by name: `attr uses label[,label]`
		used := false
		for _, u := range strings.Split(con.Attrs["uses"], ",") {
			if strings.TrimSpace(u) == ga.Clause.Label && u != "" {
				used = true
			}
		}
		if ga.Pkg == pkgPath && used {
			c.addFact(fr.evalBool(ga.Clause.Expr, st, st, env))
			c.AssumedLib["assume-global["+ga.Clause.Label+"] "+ga.Clause.Src] = true
		}
	}
	c.cover("requires", st)
	// known-finding witnesses for this function
	c.evalWitnesses(fr, name, st, env)
	fr.run(st, args)
	rep.Returns = len(fr.Returns)
	sort.Slice(fr.Returns, func(i, j int) bool { return fr.Returns[i].idx < fr.Returns[j].idx })
	// postconditions
	for _, r := range fr.Returns {
		renv := map[string]*Val{}
		for k, v := range env {
			renv[k] = v
		}
		var res *Val
		switch len(r.vals) {
		case 0:
		case 1:
			res = r.vals[0]
		default:
			res = &Val{K: KTuple, T: fn.Signature.Results(), Fs: r.vals}
		}
		if res != nil {
			bindResults(renv, con, fn, fn.Signature, res)
		}
		rn := fmt.Sprintf("ret%d", r.idx)
		// a trusted contract listed for verification: its postconditions and frame stay assumptions (they speak about an
		// abstraction the body does not mention); its at-call clauses, loop invariants and ensures-local clauses (which are
		// never assumed by callers) are checked on the body
		if len(con.Ensures) > 0 {
			c.cover(rn, r.st)
			if r.pos.IsValid() {
				// the probe carries its return's position, so that an expected_unreachable entry keyed by the source line
				// ("F#cover/site:<line>") follows the statement when return ordinals shift
				pp := c.P.Fset.Position(r.pos)
				c.Obs[len(c.Obs)-1].Pos = fmt.Sprintf("%s:%d", strings.TrimPrefix(pp.Filename, c.P.RepoDir+"/"), pp.Line)
			}
		}
		for i, en := range con.Ensures {
			if con.Trusted && !en.Local {
				continue
			}
			g := fr.evalBool(en.Expr, r.st, fr.Entry, renv)
			c.oblige(fr, "post", clauseName("", en, i)+"@"+rn, r.st, g, "postcondition: "+en.Src, r.pos)
			c.Obs[len(c.Obs)-1].ClauseExpr = en.Expr
		}
		if con.ModSet && !con.Trusted {
			c.frameObligations(fr, con, r, rn, env)
		}
	}
	// explicit panics
	if con.Safety || len(con.Panics) > 0 {
		for _, p := range fr.Panics {
			var allowed []*Term
			for _, pc := range con.Panics {
				allowed = append(allowed, fr.evalBool(pc.Expr, fr.Entry, fr.Entry, env))
			}
			c.oblige(fr, "safe", fmt.Sprintf("panic@%s", c.posKey(p.pos)), p.st, Or(allowed...), "explicit panic only under the declared conditions", p.pos)
		}
	}
	// every at-call clause must have matched at least one call (otherwise the contract silently stopped applying)
	for i, ac := range con.AtCalls {
		if !fr.atCallHit[i] && len(fr.deferredAt[i]) > 0 {
			for _, ob := range fr.deferredAt[i] {
				c.Obs = append(c.Obs, ob)
			}
			c.note("%s: at-call clause for %s has no call site in the function itself; it is checked at the call(s) reached through inlined helpers", fn, ac.Callee)
			continue
		}
		if !fr.atCallHit[i] {
			c.oblige(fr, "at-call", ac.Callee+"."+clauseName("", ac.Clause, i)+"@missing", fr.Entry, TFalse, "the function no longer calls "+ac.Callee+" (at-call clause has no call site)", 0)
		}
	}
	rep.Obligations = len(c.Obs) - nobs
	return
}

// frameObligations: every heap array touched equals its entry value on objects allocated at entry, outside `modifies`.
func (c *Ctx) frameObligations(fr *Frame, con *Contract, r retPoint, rn string, env map[string]*Val) {
	keys := make([]string, 0, len(heapSorts))
	for k := range heapSorts {
		keys = append(keys, k)
	}
	sort.Strings(keys)
	// allowed (key, ref) pairs from modifies
	type allow struct {
		prefix string
		ref    *Term
	}
	var allows []allow
	var rawAllowed []string
	for _, m := range con.Modifies {
		if m == "*" {
			return
		}
		if isRawPrefix(m) {
			rawAllowed = append(rawAllowed, m)
			continue
		}
		expr := strings.TrimSuffix(strings.TrimSuffix(m, ".*"), "[*]")
		e, err := ParseSpec(expr)
		if err != nil {
			panic(specError{err.Error()})
		}
		ev := &Ev{fr: fr, c: c, st: fr.Entry, old: fr.Entry, env: env, pkg: fr.pkgOf(), locals: true}
		switch {
		case strings.HasSuffix(m, ".*"):
			v := ev.eval(e)
			if v.K == KPtr {
				allows = append(allows, allow{strings.TrimSuffix(v.Root+v.Path, "."), v.X})
				if isBigIntPtr(v.T) {
					allows = append(allows, allow{"bigval", v.X})
				}
			}
			for _, mf := range c.modelFieldsOf(v.T) {
				allows = append(allows, allow{modelKey(mf), v.X})
			}
		case strings.HasSuffix(m, "[*]"):
			v := ev.eval(e)
			et := under(v.T).(*types.Slice).Elem()
			allows = append(allows, allow{"S:" + tstr(et), v.X})
		default:
			if e.Kind != "sel" {
				panic(specError{"unsupported modifies entry " + m})
			}
			base := ev.eval(e.Args[0])
			if mf := c.modelField(base.T, e.Name); mf != nil {
				allows = append(allows, allow{modelKey(mf), base.X})
			} else {
				allows = append(allows, allow{base.Root + base.Path + "." + e.Name, base.X})
			}
		}
	}
	if !r.st.Unframed.IsFalse() {
		c.oblige(fr, "frame", "unknown-call@"+rn, r.st, Not(r.st.Unframed), "no call with unknown effects on this path (modifies clause given)", r.pos)
	}
	alloc0 := fr.Entry.Alloc
	for _, k := range keys {
		if strings.HasPrefix(k, "G:") {
			continue
		}
		srt := heapSorts[k]
		fin := r.st.heapGet(k, srt)
		ini := fr.Entry.heapGet(k, srt)
		if fin == ini || srt.Idx != SInt {
			continue
		}
		if _, hit := matchPrefix(rawAllowed, k); hit {
			continue
		}
		q := Fresh("frame!r", SInt)
		var exc []*Term
		for _, a := range allows {
			if k == a.prefix || strings.HasPrefix(k, a.prefix+".") || strings.HasPrefix(k, a.prefix+"#") {
				exc = append(exc, Eq(q, a.ref))
			}
		}
		goal := Implies(And(Lt(q, alloc0), Not(Or(exc...))), Eq(Select(fin, q), Select(ini, q)))
		c.oblige(fr, "frame", k+"@"+rn, r.st, goal, "objects allocated at entry keep their "+k+" unless listed in modifies", r.pos)
	}
}

// ---------------------------------------------------------------------------------------------

func (c *Ctx) VerifyLemma(name string) (rep *FuncReport) {
	rep = &FuncReport{Name: "lemma." + name, Encoding: "int"}
	lm := c.S.Lemmas[name]
	if lm == nil {
		rep.Error = "lemma-missing"
		return
	}
	defer c.recoverFn(name, rep)
	resetHeapModel()
	resetGlobals()
	c.curFunc = "lemma." + name
	c.curTop = nil
	c.Inputs = map[string]*Term{}
	nobs := len(c.Obs)
	var pkg *types.Package
	if sp := c.P.SSAPkg[lm.PkgPath]; sp != nil {
		pkg = sp.Pkg
	}
	fr := &Frame{C: c, Regs: map[ssa.Value]*Val{}, loops: map[*ssa.BasicBlock]*loopInfo{}, Params: map[string]*Val{}, lemmaPkg: pkg}
	alloc0 := Sym("alloc0", SInt)
	nonNegSyms["alloc0"] = true
	c.addFact(Le(Num(1), alloc0))
	st := &State{R: TTrue, Cells: map[*ssa.Alloc]*Val{}, Heap: map[string]*Term{}, Ghost: map[string]*Term{}, Alloc: alloc0, Unframed: TFalse}
	fr.Entry = st.clone()
	env := map[string]*Val{}
	for _, v := range lm.Vars {
		var val *Val
		switch v.Type {
		case "int":
			val = mathVal(Fresh("lv!"+v.Name, SInt))
		case "bool":
			val = boolVal(Fresh("lv!"+v.Name, SBool))
		default:
			t := c.resolveType(v.Type, pkg)
			if t == nil {
				panic(specError{"unknown type " + v.Type})
			}
			var facts []*Term
			val = freshVal(t, "lv!"+v.Name, &facts)
			for _, f := range facts {
				c.addFact(f)
			}
			c.allocFacts(val, alloc0)
		}
		env[v.Name] = val
		c.registerInputs(v.Name, val, st)
	}
	for _, ga := range c.S.Globals {
		for _, u := range strings.Split(lm.Uses, ",") {
			if strings.TrimSpace(u) == ga.Clause.Label && u != "" && ga.Pkg == lm.PkgPath {
				ev := &Ev{fr: fr, c: c, st: st, old: st, env: env, pkg: pkg}
				c.addFact(ev.boolTerm(ga.Clause.Expr))
				c.AssumedLib["assume-global["+ga.Clause.Label+"] "+ga.Clause.Src] = true
			}
		}
	}
	for i, s := range lm.Steps {
		ev := &Ev{fr: fr, c: c, st: st, old: st, env: env, pkg: pkg}
		switch s.Kind {
		case "assume":
			c.addFact(ev.boolTerm(s.Expr))
		case "let":
			ev.mutate = true
			env[s.Name] = ev.eval(s.Expr)
		case "assert":
			lbl := s.Label
			if lbl == "" {
				lbl = fmt.Sprint(i)
			}
			c.cover(lbl, st)
			c.oblige(fr, "lemma", lbl, st, ev.boolTerm(s.Expr), "lemma "+name+": "+s.Src, 0)
		}
	}
	rep.Obligations = len(c.Obs) - nobs
	return
}

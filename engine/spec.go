package main

// Contract files and the specification expression language.

import (
	"fmt"
	"math/big"
	"os"
	"path/filepath"
	"strings"
	"unicode"
)

type SVar struct {
	Name string
	Type string
}

type SExpr struct {
	Kind string // id num str bin un call sel idx quant old ite
	Op   string
	Name string
	Num  *big.Int
	Args []*SExpr
	Vars []SVar
	Pos  string
}

func (e *SExpr) String() string {
	switch e.Kind {
	case "id":
		return e.Name
	case "num":
		return e.Num.String()
	case "str":
		return fmt.Sprintf("%q", e.Name)
	case "bin":
		return "(" + e.Args[0].String() + " " + e.Op + " " + e.Args[1].String() + ")"
	case "un":
		return e.Op + e.Args[0].String()
	case "call":
		var as []string
		for _, a := range e.Args[1:] {
			as = append(as, a.String())
		}
		return e.Args[0].String() + "(" + strings.Join(as, ", ") + ")"
	case "sel":
		return e.Args[0].String() + "." + e.Name
	case "idx":
		return e.Args[0].String() + "[" + e.Args[1].String() + "]"
	case "quant":
		var vs []string
		for _, v := range e.Vars {
			vs = append(vs, v.Name+" "+v.Type)
		}
		return "(" + e.Op + " " + strings.Join(vs, ", ") + " :: " + e.Args[0].String() + ")"
	}
	return "?" + e.Kind
}

type tok struct {
	k string // id num str op eof
	s string
}

func lexSpec(src string) ([]tok, error) {
	var out []tok
	i := 0
	for i < len(src) {
		c := src[i]
		switch {
		case c == ' ' || c == '\t' || c == '\n':
			i++
		case unicode.IsLetter(rune(c)) || c == '_':
			j := i
			for j < len(src) && (unicode.IsLetter(rune(src[j])) || unicode.IsDigit(rune(src[j])) || src[j] == '_' || src[j] == '$' || (src[j] == '#' && j+1 < len(src) && src[j+1] >= '0' && src[j+1] <= '9')) {
				j++
			}
			out = append(out, tok{"id", src[i:j]})
			i = j
		case c >= '0' && c <= '9':
			j := i
			for j < len(src) && (src[j] >= '0' && src[j] <= '9' || src[j] == 'x' || src[j] >= 'a' && src[j] <= 'f' || src[j] >= 'A' && src[j] <= 'F' || src[j] == '_') {
				j++
			}
			out = append(out, tok{"num", src[i:j]})
			i = j
		case c == '"':
			j := i + 1
			for j < len(src) && src[j] != '"' {
				j++
			}
			if j >= len(src) {
				return nil, fmt.Errorf("unterminated string")
			}
			out = append(out, tok{"str", src[i+1 : j]})
			i = j + 1
		default:
			ops := []string{"<==>", "==>", "::", "&&", "||", "==", "!=", "<=", ">=", "<<", ">>", "<", ">", "+", "-", "*", "/", "%", "!", "(", ")", "[", "]", ".", ",", ":", "^", "?"}
			found := false
			for _, op := range ops {
				if strings.HasPrefix(src[i:], op) {
					out = append(out, tok{"op", op})
					i += len(op)
					found = true
					break
				}
			}
			if !found {
				return nil, fmt.Errorf("bad character %q in spec %q", c, src)
			}
		}
	}
	out = append(out, tok{"eof", ""})
	return out, nil
}

type specParser struct {
	toks []tok
	p    int
	src  string
}

func ParseSpec(src string) (e *SExpr, err error) {
	toks, err := lexSpec(src)
	if err != nil {
		return nil, err
	}
	sp := &specParser{toks: toks, src: src}
	defer func() {
		if r := recover(); r != nil {
			if s, ok := r.(string); ok {
				err = fmt.Errorf("spec parse error in %q: %s", src, s)
				return
			}
			panic(r)
		}
	}()
	e = sp.expr(0)
	if sp.peek().k != "eof" {
		panic("unexpected token " + sp.peek().s)
	}
	return e, nil
}

func (sp *specParser) peek() tok { return sp.toks[sp.p] }
func (sp *specParser) next() tok { t := sp.toks[sp.p]; sp.p++; return t }
func (sp *specParser) isOp(s string) bool {
	t := sp.peek()
	return t.k == "op" && t.s == s
}
func (sp *specParser) expect(s string) {
	if !sp.isOp(s) {
		panic("expected " + s + " got " + sp.peek().s)
	}
	sp.p++
}

var binPrec = map[string]int{
	"<==>": 1, "==>": 2, "||": 3, "&&": 4,
	"==": 5, "!=": 5, "<": 5, "<=": 5, ">": 5, ">=": 5,
	"+": 6, "-": 6, "*": 7, "/": 7, "%": 7, "<<": 7, ">>": 7,
}

func (sp *specParser) expr(minPrec int) *SExpr {
	lhs := sp.unary()
	for {
		t := sp.peek()
		if t.k != "op" {
			break
		}
		prec, ok := binPrec[t.s]
		if !ok || prec < minPrec {
			break
		}
		sp.next()
		var rhs *SExpr
		if t.s == "==>" {
			rhs = sp.expr(prec) // right assoc
		} else {
			rhs = sp.expr(prec + 1)
		}
		lhs = &SExpr{Kind: "bin", Op: t.s, Args: []*SExpr{lhs, rhs}}
	}
	return lhs
}

func (sp *specParser) unary() *SExpr {
	t := sp.peek()
	if t.k == "op" && (t.s == "!" || t.s == "-") {
		sp.next()
		return &SExpr{Kind: "un", Op: t.s, Args: []*SExpr{sp.unary()}}
	}
	if t.k == "id" && (t.s == "forall" || t.s == "exists") {
		sp.next()
		var vars []SVar
		for {
			n := sp.next()
			if n.k != "id" {
				panic("expected var name in quantifier")
			}
			ty := sp.typeStr()
			vars = append(vars, SVar{n.s, ty})
			if sp.isOp(",") {
				sp.next()
				continue
			}
			break
		}
		sp.expect("::")
		body := sp.expr(0)
		return &SExpr{Kind: "quant", Op: t.s, Vars: vars, Args: []*SExpr{body}}
	}
	return sp.postfix(sp.primary())
}

// typeStr reads a type in a restricted syntax: [*][]name[.name]
func (sp *specParser) typeStr() string {
	s := ""
	for {
		if sp.isOp("*") {
			sp.next()
			s += "*"
			continue
		}
		if sp.isOp("[") {
			sp.next()
			if sp.peek().k == "num" {
				s += "[" + sp.next().s + "]"
				sp.expect("]")
			} else {
				sp.expect("]")
				s += "[]"
			}
			continue
		}
		break
	}
	n := sp.next()
	if n.k != "id" {
		panic("expected type name")
	}
	s += n.s
	if sp.isOp(".") {
		sp.next()
		s += "." + sp.next().s
	}
	return s
}

func (sp *specParser) primary() *SExpr {
	t := sp.next()
	switch t.k {
	case "id":
		return &SExpr{Kind: "id", Name: t.s}
	case "num":
		s := strings.ReplaceAll(t.s, "_", "")
		v, ok := new(big.Int).SetString(s, 0)
		if !ok {
			panic("bad number " + t.s)
		}
		return &SExpr{Kind: "num", Num: v}
	case "str":
		return &SExpr{Kind: "str", Name: t.s}
	case "op":
		if t.s == "(" {
			e := sp.expr(0)
			sp.expect(")")
			return e
		}
	}
	panic("unexpected token " + t.s)
}

func (sp *specParser) postfix(e *SExpr) *SExpr {
	for {
		switch {
		case sp.isOp("."):
			sp.next()
			n := sp.next()
			if n.k != "id" && n.k != "num" {
				panic("expected field name after .")
			}
			e = &SExpr{Kind: "sel", Name: n.s, Args: []*SExpr{e}}
		case sp.isOp("["):
			sp.next()
			i := sp.expr(0)
			sp.expect("]")
			e = &SExpr{Kind: "idx", Args: []*SExpr{e, i}}
		case sp.isOp("("):
			sp.next()
			args := []*SExpr{e}
			for !sp.isOp(")") {
				args = append(args, sp.expr(0))
				if sp.isOp(",") {
					sp.next()
				}
			}
			sp.expect(")")
			e = &SExpr{Kind: "call", Args: args}
		default:
			return e
		}
	}
}

// ---------------------------------------------------------------------------------------------
// Contract files

type Clause struct {
	Label string
	Expr  *SExpr
	Src   string
	Local bool // ensures-local: may mention local variables; proved on the body, not assumed at call sites
}

type LoopSpec struct {
	Ordinal    int
	Invariants []Clause
	Decreases  *Clause
	Unroll     int
}

type Contract struct {
	PkgPath  string
	Key      string // Func or Type.Method
	Params   []string // optional positional renames
	Results  []string
	Requires []Clause
	Ensures  []Clause
	Modifies []string // location expressions; nil => unspecified ("*"); ["nothing"] => none
	ModSet   bool
	Pure     bool
	Inline   bool
	Trusted  bool
	Safety   bool
	NoVerify bool
	Panics   []Clause
	AtCalls  []AtCall
	Loops    map[int]*LoopSpec
	Attrs    map[string]string
	File     string
	Line     int
}

// AtCall: an assertion over the caller's variables that must hold at every call to the named callee inside this function.
type AtCall struct {
	Ordinal int // 0 = every call; n = only the n-th call to the callee
	Callee string
	Clause Clause
}

type SpecFn struct {
	Decl   string // declaration text (to recognise a conflicting redefinition)
	File   string
	Name   string
	Params []SVar
	Ret    string
	Body   *SExpr // nil => uninterpreted
	Src    string
	Axioms []Clause
}

type Lemma struct {
	PkgPath string
	Name    string
	Vars    []SVar
	Steps   []LemmaStep
	File    string
	Uses    string // `attr uses label[,label]`: global assumptions brought into this lemma
}

type LemmaStep struct {
	Kind string // assume | let | assert | call
	Name string // for let: bound name
	Expr *SExpr
	Src  string
	Label string
}

type ModelField struct {
	Type  string // pkgpath.TypeName
	Field string
	Sort  string // int | bool | ref | map[int]int ...
}

type Specs struct {
	Contracts map[string]*Contract // key: pkgpath + "." + Key
	SpecFns   map[string]*SpecFn
	Lemmas    map[string]*Lemma
	Models    map[string]*ModelField // key: pkgpath.Type.field
	Files     []string
	Globals   []GlobalAssume // assume-global clauses: axioms about uninterpreted functions, by package
}

// GlobalAssume is an assumption available in every verification unit of its package (and listed in the evidence).
type GlobalAssume struct {
	Pkg    string
	Clause Clause
}

func NewSpecs() *Specs {
	return &Specs{Contracts: map[string]*Contract{}, SpecFns: map[string]*SpecFn{}, Lemmas: map[string]*Lemma{}, Models: map[string]*ModelField{}}
}

var clauseKeywords = map[string]bool{"requires": true, "ensures": true, "modifies": true, "pure": true, "inline": true, "trusted": true,
	"safety": true, "panics": true, "ensures-local": true, "loop": true, "invariant": true, "decreases": true, "unroll": true, "attr": true, "noverify": true,
	"vars": true, "assume": true, "let": true, "assert": true, "axiom": true, "at-call": true, "assume-global": true}

// LoadSpecFile parses a contract file. pkgPath is the package the file's unqualified keys refer to ("" for shared spec files
// where `func` keys must be fully qualified as pkgpath:Key).
func (S *Specs) LoadSpecFile(path, pkgPath string) error {
	b, err := os.ReadFile(path)
	if err != nil {
		return err
	}
	S.Files = append(S.Files, path)
	type rawLine struct {
		n    int
		text string
	}
	var lines []rawLine
	for i, l := range strings.Split(string(b), "\n") {
		t := strings.TrimSpace(l)
		if strings.HasPrefix(t, "//@") {
			body := strings.TrimPrefix(t, "//@")
			if c := strings.Index(body, " //"); c >= 0 { // trailing comment
				body = body[:c]
			}
			if strings.TrimSpace(body) == "" {
				continue
			}
			lines = append(lines, rawLine{i + 1, body})
		}
	}
	// join continuation lines
	var joined []rawLine
	for _, l := range lines {
		f := strings.Fields(l.text)
		first := f[0]
		lbl := first
		if i := strings.Index(lbl, "["); i >= 0 {
			lbl = lbl[:i]
		}
		isKw := clauseKeywords[lbl] || first == "func" || first == "lemma" || first == "spec" || first == "model"
		if !isKw && len(joined) > 0 {
			joined[len(joined)-1].text += " " + strings.TrimSpace(l.text)
			continue
		}
		joined = append(joined, rawLine{l.n, strings.TrimSpace(l.text)})
	}
	var cur *Contract
	var curLoop *LoopSpec
	var curLemma *Lemma
	var curSpec *SpecFn
	fail := func(n int, f string, a ...interface{}) error {
		return fmt.Errorf("%s:%d: %s", path, n, fmt.Sprintf(f, a...))
	}
	for _, l := range joined {
		kw, rest, _ := strings.Cut(l.text, " ")
		rest = strings.TrimSpace(rest)
		label := ""
		if i := strings.Index(kw, "["); i >= 0 && strings.HasSuffix(kw, "]") {
			label = kw[i+1 : len(kw)-1]
			kw = kw[:i]
		}
		parseClause := func() (Clause, error) {
			e, err := ParseSpec(rest)
			if err != nil {
				return Clause{}, fail(l.n, "%v", err)
			}
			return Clause{Label: label, Expr: e, Src: rest}, nil
		}
		switch kw {
		case "func":
			cur = &Contract{PkgPath: pkgPath, Loops: map[int]*LoopSpec{}, Attrs: map[string]string{}, File: path, Line: l.n}
			curLoop, curLemma, curSpec = nil, nil, nil
			key := rest
			if i := strings.Index(key, "("); i >= 0 {
				ps := key[i+1:]
				key = strings.TrimSpace(key[:i])
				j := strings.Index(ps, ")")
				if j < 0 {
					return fail(l.n, "missing ) in func header")
				}
				for _, p := range strings.Split(ps[:j], ",") {
					if p = strings.TrimSpace(p); p != "" {
						cur.Params = append(cur.Params, p)
					}
				}
				tail := strings.TrimSpace(ps[j+1:])
				if strings.HasPrefix(tail, "->") {
					tail = strings.Trim(strings.TrimSpace(tail[2:]), "()")
					for _, r := range strings.Split(tail, ",") {
						if r = strings.TrimSpace(r); r != "" {
							cur.Results = append(cur.Results, r)
						}
					}
				}
			}
			if i := strings.Index(key, ":"); i >= 0 {
				cur.PkgPath = key[:i]
				if !strings.Contains(cur.PkgPath, "/") || strings.HasPrefix(cur.PkgPath, "chain") || strings.HasPrefix(cur.PkgPath, "vm") {
					// allow module-relative package paths
				}
				key = key[i+1:]
			}
			if cur.PkgPath == "" {
				return fail(l.n, "func %s needs a package", key)
			}
			cur.Key = key
			full := cur.PkgPath + "." + key
			if _, dup := S.Contracts[full]; dup {
				return fail(l.n, "duplicate contract for %s", full)
			}
			S.Contracts[full] = cur
		case "lemma":
			curLemma = &Lemma{PkgPath: pkgPath, Name: rest, File: path}
			cur, curLoop, curSpec = nil, nil, nil
			S.Lemmas[rest] = curLemma
		case "spec":
			// spec name(x int, y int) int = expr      or without "= expr" (uninterpreted)
			cur, curLoop, curLemma = nil, nil, nil
			sf, err := parseSpecFn(rest)
			if err != nil {
				return fail(l.n, "%v", err)
			}
			if prev, dup := S.SpecFns[sf.Name]; dup && strings.Join(strings.Fields(prev.Decl), " ") != strings.Join(strings.Fields(rest), " ") {
				// spec functions live in one name space: a second, different definition would silently replace the first
				return fail(l.n, "spec function %s is already defined differently in %s", sf.Name, prev.File)
			}
			sf.Decl, sf.File = rest, path
			S.SpecFns[sf.Name] = sf
			curSpec = sf
		case "assume-global":
			c, err := parseClause()
			if err != nil {
				return err
			}
			c.Label = label
			S.Globals = append(S.Globals, GlobalAssume{Pkg: pkgPath, Clause: c})
		case "axiom":
			if curSpec == nil {
				return fail(l.n, "axiom outside spec")
			}
			c, err := parseClause()
			if err != nil {
				return err
			}
			curSpec.Axioms = append(curSpec.Axioms, c)
		case "model":
			f := strings.Fields(rest)
			if len(f) != 3 {
				return fail(l.n, "model <Type> <field> <sort>")
			}
			ty := f[0]
			if !strings.Contains(ty, ":") {
				ty = pkgPath + ":" + ty
			}
			ty = strings.Replace(ty, ":", ".", 1)
			S.Models[ty+"."+f[1]] = &ModelField{Type: ty, Field: f[1], Sort: f[2]}
		case "vars":
			if curLemma == nil {
				return fail(l.n, "vars outside lemma")
			}
			for _, p := range strings.Split(rest, ",") {
				f := strings.Fields(strings.TrimSpace(p))
				if len(f) != 2 {
					return fail(l.n, "bad var decl %q", p)
				}
				curLemma.Vars = append(curLemma.Vars, SVar{f[0], f[1]})
			}
		case "assume", "assert", "let":
			if curLemma == nil {
				return fail(l.n, "%s outside lemma", kw)
			}
			st := LemmaStep{Kind: kw, Src: rest, Label: label}
			if kw == "let" {
				n, ex, ok := strings.Cut(rest, "=")
				if !ok {
					return fail(l.n, "let x = expr")
				}
				st.Name = strings.TrimSpace(n)
				rest = strings.TrimSpace(ex)
			}
			e, err := ParseSpec(rest)
			if err != nil {
				return fail(l.n, "%v", err)
			}
			st.Expr = e
			curLemma.Steps = append(curLemma.Steps, st)
		case "requires", "ensures", "ensures-local", "invariant", "decreases", "panics":
			if cur == nil {
				return fail(l.n, "%s outside func", kw)
			}
			if kw == "panics" {
				rest = strings.TrimSpace(strings.TrimPrefix(rest, "when"))
			}
			c, err := parseClause()
			if err != nil {
				return err
			}
			switch kw {
			case "requires":
				cur.Requires = append(cur.Requires, c)
			case "ensures":
				cur.Ensures = append(cur.Ensures, c)
			case "ensures-local":
				c.Local = true
				cur.Ensures = append(cur.Ensures, c)
			case "panics":
				cur.Panics = append(cur.Panics, c)
			case "invariant":
				if curLoop == nil {
					return fail(l.n, "invariant outside loop")
				}
				curLoop.Invariants = append(curLoop.Invariants, c)
			case "decreases":
				if curLoop == nil {
					return fail(l.n, "decreases outside loop")
				}
				curLoop.Decreases = &c
			}
		case "at-call":
			// at-call <Callee> assert[label] <expr>
			if cur == nil {
				return fail(l.n, "at-call outside func")
			}
			f := strings.SplitN(rest, " ", 3)
			if len(f) != 3 || !strings.HasPrefix(f[1], "assert") {
				return fail(l.n, "at-call <Callee> assert[label] <expr>")
			}
			lbl := ""
			if i := strings.Index(f[1], "["); i >= 0 {
				lbl = strings.TrimSuffix(f[1][i+1:], "]")
			}
			e, err := ParseSpec(f[2])
			if err != nil {
				return fail(l.n, "%v", err)
			}
			callee, ord := f[0], 0
			if i := strings.Index(callee, "#"); i >= 0 {
				// Callee#n: only the n-th call to that callee (source order)
				fmt.Sscanf(callee[i+1:], "%d", &ord)
				callee = callee[:i]
			}
			cur.AtCalls = append(cur.AtCalls, AtCall{Callee: callee, Ordinal: ord, Clause: Clause{Label: lbl, Expr: e, Src: f[2]}})
		case "modifies":
			if cur == nil {
				return fail(l.n, "modifies outside func")
			}
			cur.ModSet = true
			for _, m := range strings.Split(rest, ",") {
				m = strings.TrimSpace(m)
				if m != "" && m != "nothing" {
					cur.Modifies = append(cur.Modifies, m)
				}
			}
		case "loop":
			if cur == nil {
				return fail(l.n, "loop outside func")
			}
			var n int
			if _, err := fmt.Sscanf(rest, "%d", &n); err != nil {
				return fail(l.n, "loop <ordinal>")
			}
			curLoop = &LoopSpec{Ordinal: n}
			cur.Loops[n] = curLoop
		case "unroll":
			if curLoop == nil {
				return fail(l.n, "unroll outside loop")
			}
			fmt.Sscanf(rest, "%d", &curLoop.Unroll)
		case "pure":
			cur.Pure = true
			if !cur.ModSet {
				cur.ModSet = true
			}
		case "inline":
			cur.Inline = true
		case "trusted":
			cur.Trusted = true
		case "noverify":
			cur.NoVerify = true
		case "safety":
			cur.Safety = true
		case "attr":
			k, v, _ := strings.Cut(rest, " ")
			if curLemma != nil && cur == nil {
				if k == "uses" {
					curLemma.Uses = strings.TrimSpace(v)
				}
				break
			}
			if cur == nil {
				return fail(l.n, "attr outside func or lemma")
			}
			cur.Attrs[k] = strings.TrimSpace(v)
		default:
			return fail(l.n, "unknown keyword %q", kw)
		}
	}
	return nil
}

func parseSpecFn(s string) (*SpecFn, error) {
	head, body, hasBody := strings.Cut(s, " = ")
	i := strings.Index(head, "(")
	j := strings.LastIndex(head, ")")
	if i < 0 || j < i {
		return nil, fmt.Errorf("spec fn header: %q", head)
	}
	sf := &SpecFn{Name: strings.TrimSpace(head[:i]), Ret: strings.TrimSpace(head[j+1:]), Src: s}
	for _, p := range strings.Split(head[i+1:j], ",") {
		p = strings.TrimSpace(p)
		if p == "" {
			continue
		}
		f := strings.Fields(p)
		if len(f) != 2 {
			return nil, fmt.Errorf("spec fn param %q", p)
		}
		sf.Params = append(sf.Params, SVar{f[0], f[1]})
	}
	if hasBody {
		e, err := ParseSpec(body)
		if err != nil {
			return nil, err
		}
		sf.Body = e
	}
	return sf, nil
}

// LoadAllSpecs loads /verif/specs/*.gvs and every zz_verif_contracts.go under the repo.
func LoadAllSpecs(repo, specDir string) (*Specs, error) {
	S := NewSpecs()
	gvs, _ := filepath.Glob(filepath.Join(specDir, "*.gvs"))
	for _, f := range gvs {
		if err := S.LoadSpecFile(f, ""); err != nil {
			return nil, err
		}
	}
	err := filepath.Walk(repo, func(p string, info os.FileInfo, err error) error {
		if err != nil {
			return nil
		}
		if info.IsDir() && (info.Name() == ".git" || info.Name() == "vendor") {
			return filepath.SkipDir
		}
		if !info.IsDir() && info.Name() == "zz_verif_contracts.go" {
			rel, _ := filepath.Rel(repo, filepath.Dir(p))
			pkg := modPath
			if rel != "." {
				pkg += "/" + filepath.ToSlash(rel)
			}
			if err := S.LoadSpecFile(p, pkg); err != nil {
				return err
			}
		}
		return nil
	})
	return S, err
}

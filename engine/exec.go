package main

// Symbolic execution of go/ssa functions with state merging; loops are cut at their headers by invariants.

import (
	"fmt"
	"os"
	"go/constant"
	"go/token"
	"go/types"
	"sort"
	"strings"

	"golang.org/x/tools/go/ssa"
)

type Obligation struct {
	CrossChecked []string // thorough tier: solvers (and reseeded runs) that also answered unsat
	Name    string
	Kind    string
	Func    string
	Hyps    []*Term // facts prefix
	Reach   *Term
	Goal    *Term
	Desc    string
	Pos     string
	Inputs  map[string]*Term // named input terms for counterexample extraction
	Result  string           // filled by solver
	Solver  string
	Ms      int64
	Model   map[string]string
	RawOut  string
	Cover   bool // reachability (vacuity) probe: expected SAT
	file    string
	scriptLen int
	Extra   []*Term // extra hypotheses (known-finding witness exclusion)
	Fn      *ssa.Function
	Con     *Contract
	ClauseExpr *SExpr
}

type Ctx struct {
	P     *Program
	S     *Specs
	Obs   []*Obligation
	Notes []string // abstraction notes
	// per top-level function
	curFunc      string
	obCounter    map[string]int
	Abstracted   map[string]bool
	AssumedLib   map[string]bool
	UsedContracts map[string]bool
	InlinedFns   map[string]bool
	ConstGlobals map[string]bool
	Inputs       map[string]*Term
	noObligations int // >0 while inlining without emitting safety obligations
	errDistinct  []*Term
	strLits      map[string]*Term
	typeTags     map[string]int
	knownWitness map[string][]*Term
	curTop       *ssa.Function
	recoverNil   int
}

func NewCtx(P *Program, S *Specs) *Ctx {
	return &Ctx{P: P, S: S, obCounter: map[string]int{}, Abstracted: map[string]bool{}, AssumedLib: map[string]bool{}, UsedContracts: map[string]bool{},
		InlinedFns: map[string]bool{}, ConstGlobals: map[string]bool{}, strLits: map[string]*Term{}, typeTags: map[string]int{}}
}

type Frame struct {
	C      *Ctx
	Fn     *ssa.Function
	Regs   map[ssa.Value]*Val
	Depth  int
	Con    *Contract
	Top    bool
	Safety bool
	Entry  *State // entry state (for old())
	Params map[string]*Val
	ParamAlias map[string]string // contract-header parameter name -> source parameter name (top-level frames)
	sharedArr  map[*ssa.Alloc]*Term  // backing arrays of array variables sliced inside a loop they are declared outside of
	deferredAt map[int][]*Obligation // at-call clauses matched inside inlined helpers (used when the function itself has no call site)
	// loop bookkeeping
	loops      map[*ssa.BasicBlock]*loopInfo
	Returns    []retPoint
	callClosure *Val // the closure value of the call whose contract is being applied (free variables visible to its clauses)
	Panics     []retPoint
	deferred   []deferRec
	Closure    *Val
	Parent     *Frame
	envTop     map[string]*Val
	lemmaPkg   *types.Package
	atCallHit  map[int]bool
	midEval    bool
}

type deferRec struct {
	cond *Term
	call *ssa.CallCommon
	pos  token.Pos
	fn   *Val
	args []*Val
	ok   bool
}

type retPoint struct {
	st   *State
	vals []*Val
	pos  token.Pos
	idx  int
}

type loopInfo struct {
	header  *ssa.BasicBlock
	body    map[*ssa.BasicBlock]bool
	ordinal int
	spec    *LoopSpec
	pre     *State
	hdrSt   *State
	variant *Term
	auto    func(st *State) *Term
	frameKeys []string
}

func (c *Ctx) note(f string, a ...interface{}) {
	s := fmt.Sprintf(f, a...)
	for _, n := range c.Notes {
		if n == s {
			return
		}
	}
	c.Notes = append(c.Notes, s)
}

func (c *Ctx) addFact(t *Term) {
	if t.IsTrue() {
		return
	}
	if freeBound(t) {
		// a fact about a term under a quantifier (mentions a bound variable outside any binder): dropped, never asserted
		return
	}
	globalFacts = append(globalFacts, t)
}

// freeBound: does t mention a bound variable that no quantifier inside t binds?
func freeBound(t *Term) bool {
	if !hasBound(t) {
		return false
	}
	var walk func(t *Term, bound map[*Term]bool) bool
	walk = func(t *Term, bound map[*Term]bool) bool {
		if t.Op == "bvar" {
			return !bound[t]
		}
		if !hasBound(t) {
			return false
		}
		nb := bound
		if len(t.Bnd) > 0 {
			nb = map[*Term]bool{}
			for k, v := range bound {
				nb[k] = v
			}
			for _, b := range t.Bnd {
				nb[b] = true
			}
		}
		for _, a := range t.Args {
			if walk(a, nb) {
				return true
			}
		}
		return false
	}
	return walk(t, map[*Term]bool{})
}

func (c *Ctx) oblige(fr *Frame, kind, name string, st *State, goal *Term, desc string, pos token.Pos) {
	if goal.IsTrue() {
		// trivially discharged; still count it
	}
	full := c.curFunc + "#" + kind + "/" + name
	c.obCounter[full]++
	if n := c.obCounter[full]; n > 1 {
		full = fmt.Sprintf("%s~%d", full, n)
	}
	ob := &Obligation{Name: full, Kind: kind, Func: c.curFunc, Hyps: append([]*Term(nil), globalFacts...), Reach: st.R, Goal: goal, Desc: desc, Inputs: c.Inputs}
	for f := fr; f != nil; f = f.Parent {
		if f.Top {
			ob.Fn, ob.Con = f.Fn, f.Con
		}
	}
	if pos.IsValid() {
		p := c.P.Fset.Position(pos)
		ob.Pos = fmt.Sprintf("%s:%d", strings.TrimPrefix(p.Filename, c.P.RepoDir+"/"), p.Line)
	}
	c.Obs = append(c.Obs, ob)
	c.addFact(Implies(st.R, goal))
}

func (c *Ctx) cover(name string, st *State) {
	full := c.curFunc + "#cover/" + name
	ob := &Obligation{Name: full, Kind: "cover", Func: c.curFunc, Hyps: append([]*Term(nil), globalFacts...), Reach: st.R, Goal: TFalse, Cover: true}
	c.Obs = append(c.Obs, ob)
}

// ---------------------------------------------------------------------------------------------

type unsupported struct{ msg string }

func unsup(f string, a ...interface{}) { panic(unsupported{fmt.Sprintf(f, a...)}) }

func (fr *Frame) val(st *State, v ssa.Value) *Val {
	switch x := v.(type) {
	case *ssa.Const:
		return fr.C.constVal(x)
	case *ssa.Global:
		return fr.C.globalPtr(x)
	case *ssa.Function:
		return &Val{K: KFunc, T: x.Type(), X: Num(int64(fr.C.typeTag("fn:" + x.String()))), Fn: x}
	case *ssa.Builtin:
		return &Val{K: KFunc, T: x.Type(), X: Num(0)}
	case *ssa.FreeVar:
		if fr.Closure != nil {
			for i, fv := range fr.Fn.FreeVars {
				if fv == x {
					return fr.Closure.Binds[i]
				}
			}
		}
	}
	if r, ok := fr.Regs[v]; ok {
		return r
	}
	unsup("value %s (%T) not available in %s", v.Name(), v, fr.Fn.Name())
	return nil
}

func (c *Ctx) typeTag(s string) int {
	if t, ok := c.typeTags[s]; ok {
		return t
	}
	t := len(c.typeTags) + 1
	c.typeTags[s] = t
	return t
}

func (c *Ctx) strLit(s string) *Term {
	if t, ok := c.strLits[s]; ok {
		return t
	}
	var t *Term
	if s == "" {
		t = Sym("str!empty", SStr)
	} else {
		t = Sym(fmt.Sprintf("str!lit%d", len(c.strLits)), SStr)
	}
	// distinctness from previous literals and length
	for o, ot := range c.strLits {
		if o != s {
			c.addFact(Neq(t, ot))
		}
	}
	c.addFact(Eq(App("gstr.len", SInt, t), Num(int64(len(s)))))
	c.strLits[s] = t
	return t
}

func (c *Ctx) constVal(x *ssa.Const) *Val {
	t := x.Type()
	if x.Value == nil {
		return zeroVal(t)
	}
	switch kindOf(t) {
	case KInt:
		if x.Value.Kind() == constant.Int {
			b, ok := new(bigInt).SetString(x.Value.ExactString(), 10)
			if ok {
				return &Val{K: KInt, T: t, X: NumB(b)}
			}
		}
		if x.Value.Kind() == constant.Float { // e.g. 1e9 typed int
			if i, ok := constant.Int64Val(constant.ToInt(x.Value)); ok {
				return &Val{K: KInt, T: t, X: Num(i)}
			}
		}
	case KBool:
		return &Val{K: KBool, T: t, X: Bool(constant.BoolVal(x.Value))}
	case KStr:
		return &Val{K: KStr, T: t, X: c.strLit(constant.StringVal(x.Value))}
	case KOpaque:
		return &Val{K: KOpaque, T: t, X: App("float!"+x.Value.ExactString(), SInt)}
	}
	unsup("constant %s of type %s", x, t)
	return nil
}

// globalPtr returns a pointer to the global's storage. Globals live in heap root "G:<name>" at ref 1.
func (c *Ctx) globalPtr(g *ssa.Global) *Val {
	elem := g.Type().(*types.Pointer).Elem()
	name := g.Pkg.Pkg.Path() + "." + g.Name()
	name = strings.TrimPrefix(name, modPath+"/")
	root := "G:" + name
	if _, ok := under(elem).(*types.Array); ok && c.P.MutGlobals[g] {
		root = "S:" + tstr(under(elem).(*types.Array).Elem()) // mutable array globals live in S heaps
		return &Val{K: KPtr, T: g.Type(), X: App("gref!"+name, SInt), Root: root}
	}
	return &Val{K: KPtr, T: g.Type(), X: Num(1), Root: root}
}

// ---------------------------------------------------------------------------------------------
// pointer load/store

func (fr *Frame) load(st *State, p *Val, t types.Type) *Val {
	if p.Cell != nil {
		f := p.Frame
		_ = f
		cv, ok := st.Cells[p.Cell]
		if !ok {
			cv = zeroVal(p.Cell.Type().(*types.Pointer).Elem())
		}
		for _, i := range p.CPath {
			cv = cv.Fs[i]
		}
		if p.Idx != nil {
			if cv.K != KArr {
				unsup("indexed cell pointer into non-array")
			}
			et := under(cv.T).(*types.Array).Elem()
			el := Select(cv.X, p.Idx)
			elemRangeFact(el, et)
			return &Val{K: kindOf(et), T: et, X: el}
		}
		return cv
	}
	if strings.HasPrefix(p.Root, "G:") {
		if p.Idx != nil && p.Path == "" {
			// element of a constant array global
			g := fr.C.findGlobal(p.Root)
			if g != nil {
				q := *p
				q.Idx = nil
				av := fr.C.loadGlobal(st, &q, g.Type().(*types.Pointer).Elem())
				if av.K == KArr {
					el := Select(av.X, p.Idx)
					elemRangeFact(el, t)
					return &Val{K: kindOf(t), T: t, X: el}
				}
			}
		}
		return fr.C.loadGlobal(st, p, t)
	}
	if strings.HasPrefix(p.Root, "S:") {
		if p.Idx == nil {
			// whole array object
			if _, ok := under(t).(*types.Array); !ok {
				unsup("load of non-array from array object %s", p.Root)
			}
			et := under(t).(*types.Array).Elem()
			if k := kindOf(et); k == KStruct || k == KArr || k == KSlice {
				unsup("load of array of aggregates")
			}
			arr := st.heapGet(heapKey(p.Root, p.Path), SArr(SInt, SArr(SInt, sortOf(et))))
			return &Val{K: KArr, T: t, X: Select(arr, p.X)}
		}
		if p.X.IsConst() && p.X.Val.Sign() < 0 && p.Path == "" {
			if content, ok := constSlices[p.X.Val.Int64()]; ok {
				return &Val{K: kindOf(t), T: t, X: Select(content, p.Idx)}
			}
		}
		return st.loadAt(p.Root, p.Path, p.X, p.Idx, t)
	}
	if p.Idx != nil {
		// element of an array leaf inside an object
		arr := st.heapGet(heapKey(p.Root, p.Path), SArr(SInt, SArr(SInt, sortOf(t))))
		x := Select(Select(arr, p.X), p.Idx)
		if lo, hi, ok := intRange(t); ok && x.Op == "select" {
			addTypeFact(And(Le(lo, x), Le(x, hi)))
		}
		return &Val{K: kindOf(t), T: t, X: x}
	}
	return st.loadAt(p.Root, p.Path, p.X, nil, t)
}

func setPath(v *Val, path []int, idx *Term, nv *Val) *Val {
	if len(path) == 0 {
		if idx != nil {
			return &Val{K: KArr, T: v.T, X: Store(v.X, idx, nv.X)}
		}
		return nv
	}
	c := &Val{K: v.K, T: v.T, Fs: append([]*Val(nil), v.Fs...)}
	c.Fs[path[0]] = setPath(v.Fs[path[0]], path[1:], idx, nv)
	return c
}

func (fr *Frame) store(st *State, p *Val, t types.Type, v *Val) {
	if p.Cell != nil {
		cv, ok := st.Cells[p.Cell]
		if !ok {
			cv = zeroVal(p.Cell.Type().(*types.Pointer).Elem())
		}
		st.Cells[p.Cell] = setPath(cv, p.CPath, p.Idx, v)
		return
	}
	if strings.HasPrefix(p.Root, "G:") {
		// store to a global: record in heap
		st.storeAt(p.Root, p.Path, p.X, nil, t, v)
		return
	}
	if strings.HasPrefix(p.Root, "S:") {
		if p.Idx == nil {
			et := under(t).(*types.Array).Elem()
			k := heapKey(p.Root, p.Path)
			arr := st.heapGet(k, SArr(SInt, SArr(SInt, sortOf(et))))
			st.heapSet(k, Store(arr, p.X, v.X))
			return
		}
		st.storeAt(p.Root, p.Path, p.X, p.Idx, t, v)
		return
	}
	if p.Idx != nil {
		k := heapKey(p.Root, p.Path)
		arr := st.heapGet(k, SArr(SInt, SArr(SInt, sortOf(t))))
		st.heapSet(k, Store(arr, p.X, Store(Select(arr, p.X), p.Idx, v.X)))
		return
	}
	st.storeAt(p.Root, p.Path, p.X, nil, t, v)
}

// ---------------------------------------------------------------------------------------------
// Function execution

func (c *Ctx) newFrame(fn *ssa.Function, depth int) *Frame {
	return &Frame{C: c, Fn: fn, Regs: map[ssa.Value]*Val{}, Depth: depth, loops: map[*ssa.BasicBlock]*loopInfo{}, Params: map[string]*Val{}, atCallHit: map[int]bool{}}
}

func (fr *Frame) findLoops() {
	fn := fr.Fn
	var headers []*ssa.BasicBlock
	for _, b := range fn.Blocks {
		for _, s := range b.Succs {
			if s.Dominates(b) { // back edge b -> s
				li := fr.loops[s]
				if li == nil {
					li = &loopInfo{header: s, body: map[*ssa.BasicBlock]bool{s: true}}
					fr.loops[s] = li
					headers = append(headers, s)
				}
				// natural loop: nodes that reach b without passing s
				var stack []*ssa.BasicBlock
				if !li.body[b] {
					li.body[b] = true
					stack = append(stack, b)
				}
				for len(stack) > 0 {
					n := stack[len(stack)-1]
					stack = stack[:len(stack)-1]
					for _, p := range n.Preds {
						if !li.body[p] {
							li.body[p] = true
							stack = append(stack, p)
						}
					}
				}
			}
		}
	}
	sort.Slice(headers, func(i, j int) bool { return headers[i].Index < headers[j].Index })
	if fr.Top && fr.Con != nil && len(fr.Con.Loops) > 0 {
		if was, now, changed := loopStructureChanged(fn); changed {
			specFail("the function had %d loops when its loop contracts were written and has %d now: loop contracts are keyed by ordinal and have to be re-anchored (checks/aux/locals.json)", was, now)
		}
	}
	for i, h := range headers {
		fr.loops[h].ordinal = i + 1
		if fr.Con != nil {
			fr.loops[h].spec = fr.Con.Loops[i+1]
		}
	}
}

func rpo(fn *ssa.Function) []*ssa.BasicBlock {
	seen := map[*ssa.BasicBlock]bool{}
	var post []*ssa.BasicBlock
	var dfs func(b *ssa.BasicBlock)
	dfs = func(b *ssa.BasicBlock) {
		seen[b] = true
		for _, s := range b.Succs {
			if !seen[s] && !s.Dominates(b) {
				dfs(s)
			}
		}
		post = append(post, b)
	}
	dfs(fn.Blocks[0])
	for i, j := 0, len(post)-1; i < j; i, j = i+1, j-1 {
		post[i], post[j] = post[j], post[i]
	}
	return post
}

type edge struct {
	from *ssa.BasicBlock
	si   int
}

// run executes the function body from state st with parameter values args.
func (fr *Frame) run(st *State, args []*Val) {
	fn := fr.Fn
	if fn.Blocks == nil {
		unsup("function %s has no body", fn)
	}
	if fn.Recover != nil {
		fr.C.note("%s: recover block ignored (panics end the path)", fn)
	}
	for i, p := range fn.Params {
		fr.Regs[p] = args[i]
		fr.Params[p.Name()] = args[i]
	}
	fr.findLoops()
	order := rpo(fn)
	edgeSt := map[edge]*State{}
	edgeCond := map[edge]*Term{}
	for _, b := range order {
		var st0 *State
		if b == fn.Blocks[0] {
			st0 = st
		} else {
			var conds []*Term
			var sts []*State
			var predIdx []int
			for pi, p := range b.Preds {
				if b.Dominates(p) && fr.loops[b] != nil {
					continue // back edge
				}
				for si, s := range p.Succs {
					if s != b {
						continue
					}
					// multiple identical succs (if both to the same block) are handled individually
					e := edge{p, si}
					if es, ok := edgeSt[e]; ok {
						if !edgeCond[e].IsFalse() {
							conds = append(conds, edgeCond[e])
							sts = append(sts, es)
							predIdx = append(predIdx, pi)
						}
						delete(edgeSt, e)
						break
					}
				}
			}
			if len(sts) == 0 {
				continue // unreachable
			}
			st0 = mergeStates(conds, sts)
			// phis
			for _, ins := range b.Instrs {
				phi, ok := ins.(*ssa.Phi)
				if !ok {
					break
				}
				var v *Val
				for i := len(sts) - 1; i >= 0; i-- {
					ev := fr.val(sts[i], phi.Edges[predIdx[i]])
					if v == nil {
						v = ev
					} else {
						v = iteVal(conds[i], ev, v)
					}
				}
				fr.Regs[phi] = v
			}
		}
		if li := fr.loops[b]; li != nil {
			st0 = fr.enterLoop(li, st0)
		}
		cur := st0
		for _, ins := range b.Instrs {
			if cur == nil {
				break
			}
			cur = fr.step(cur, ins, b, edgeSt, edgeCond)
		}
	}
}

func rootAlloc(v ssa.Value) *ssa.Alloc {
	for i := 0; i < 16; i++ {
		switch x := v.(type) {
		case *ssa.Alloc:
			return x
		case *ssa.FieldAddr:
			v = x.X
		case *ssa.IndexAddr:
			v = x.X
		default:
			return nil
		}
	}
	return nil
}

func (fr *Frame) enterLoop(li *loopInfo, pre *State) *State {
	c := fr.C
	fr.midEval = true
	defer func() { fr.midEval = false }()
	li.pre = pre
	name := fmt.Sprintf("L%d", li.ordinal)
	if os.Getenv("GVC_DEBUG") != "" {
		fmt.Fprintf(os.Stderr, "DEBUG %s loop %s header block %d (%s) reach=%s\n", fr.Fn.Name(), name, li.header.Index, li.header.Comment, truncate(pre.R.String(), 200))
	}
	var invs []Clause
	if li.spec != nil {
		invs = li.spec.Invariants
	}
	// 1. invariant on entry
	for i, inv := range invs {
		g := fr.evalBool(inv.Expr, pre, fr.Entry, nil)
		c.oblige(fr, "inv-entry", clauseName(name, inv, i), pre, g, "loop invariant holds on entry: "+inv.Src, li.header.Instrs[0].Pos())
	}
	li.auto = fr.rangeIndexPattern(li)
	if li.auto != nil {
		if g := li.auto(pre); g != nil {
			c.oblige(fr, "inv-entry", name+".auto", pre, g, "range loop index stays within [-1, len)", li.header.Instrs[0].Pos())
		}
	}
	// implicit frame invariant: for a function with a modifies clause, objects allocated at entry keep the contents of the
	// heap arrays this loop writes (unless the array is listed in modifies)
	if fr.Top && fr.Con != nil && fr.Con.ModSet && !fr.Con.Trusted {
		w0 := newWriteSet()
		var bl []*ssa.BasicBlock
		for b := range li.body {
			bl = append(bl, b)
		}
		c.scanWrites(bl, w0, 0, map[*ssa.Function]bool{})
		if !w0.all {
			var keys []string
			for k := range heapSorts {
				if pfx, hit := matchPrefix(prefixList(w0), k); hit && !w0.freshOnly[pfx] && heapSorts[k].Idx == SInt && !fr.keyInModifies(k) && !strings.HasPrefix(k, "G:") {
					keys = append(keys, k)
				}
			}
			sort.Strings(keys)
			li.frameKeys = keys
			for _, k := range keys {
				c.oblige(fr, "inv-entry", name+".frame:"+k, pre, fr.frameInv(k, pre), "entry-allocated objects keep their "+k+" (implicit frame invariant)", li.header.Instrs[0].Pos())
			}
		}
	}
	// 2. havoc what the body may write (static, type-based write set)
	w := newWriteSet()
	var blocks []*ssa.BasicBlock
	for b := range li.body {
		blocks = append(blocks, b)
	}
	c.scanWrites(blocks, w, 0, map[*ssa.Function]bool{})
	st := pre.clone()
	var facts []*Term
	for _, b := range fr.Fn.Blocks { // deterministic order
		for _, ins := range b.Instrs {
			if a, ok := ins.(*ssa.Alloc); ok && w.cells[a] {
				st.Cells[a] = freshVal(a.Type().(*types.Pointer).Elem(), "loop!"+a.Comment, &facts)
			}
		}
	}
	for _, ins := range li.header.Instrs {
		if p, ok := ins.(*ssa.Phi); ok {
			fr.Regs[p] = freshVal(p.Type(), "loopphi!"+p.Comment, &facts)
		}
	}
	for _, f := range facts {
		c.addFact(f)
	}
	defer func() {
		// every reference held in a havoced cell is an allocated object
		for _, b := range fr.Fn.Blocks {
			for _, ins := range b.Instrs {
				if a, ok := ins.(*ssa.Alloc); ok && w.cells[a] {
					c.allocFacts(li.hdrSt.Cells[a], li.hdrSt.Alloc)
				}
			}
		}
	}()
	if w.all {
		c.note("%s: loop %d contains a call or operation with unknown effects (%s): whole heap havoced", fr.Fn, li.ordinal, w.why)
		st.havocAll()
	} else {
		// Keys whose only writes in the body go to objects allocated inside the body are NOT havoced: at an arbitrary
		// iteration the array differs from the pre-loop array only at references >= the pre-loop allocation counter, and
		// no fact constrains the pre-loop array there (quantifiers over pointers are guarded by `allocated`).
		var ps []string
		for p := range w.prefixes {
			if !w.freshOnly[p] {
				ps = append(ps, p)
			}
		}
		sort.Strings(ps)
		st.havocKeys(ps, nil)
		if len(ps) == 0 {
			a := Fresh("alloc", SInt)
			nonNegSyms[a.Name] = true
			c.addFact(Le(st.Alloc, a))
			st.Alloc = a
		}
	}
	// 3. assume invariant
	for _, k := range li.frameKeys {
		c.addFact(Implies(st.R, fr.frameInv(k, st)))
	}
	if li.auto != nil {
		if g := li.auto(st); g != nil {
			c.addFact(Implies(st.R, g))
		}
	}
	for _, inv := range invs {
		g := fr.evalBool(inv.Expr, st, fr.Entry, nil)
		c.addFact(Implies(st.R, g))
	}
	if li.spec != nil && li.spec.Decreases != nil {
		li.variant = fr.evalInt(li.spec.Decreases.Expr, st, fr.Entry, nil)
	}
	li.hdrSt = st
	return st
}

func prefixList(w *writeSet) []string {
	var ps []string
	for p := range w.prefixes {
		ps = append(ps, p)
	}
	sort.Strings(ps)
	return ps
}

// keyInModifies reports whether the heap key may be written according to the function's modifies clause (by type).
func (fr *Frame) keyInModifies(k string) bool {
	for _, m := range fr.Con.Modifies {
		if m == "*" {
			return true
		}
		ps, ok := fr.C.modPrefixesOwn(fr, m)
		if !ok {
			return true
		}
		if _, hit := matchPrefix(ps, k); hit {
			return true
		}
	}
	return false
}

func (fr *Frame) frameInv(k string, st *State) *Term {
	srt := heapSorts[k]
	q := BoundVar("r", SInt)
	return Forall([]*Term{q}, Implies(Lt(q, fr.Entry.Alloc), Eq(Select(st.heapGet(k, srt), q), Select(fr.Entry.heapGet(k, srt), q))))
}

// rangeIndexPattern recognises the header of `for i := range slice` (load rangeindex; +1; store; compare with len) and
// returns the automatic invariant -1 <= rangeindex < len.
func (fr *Frame) rangeIndexPattern(li *loopInfo) func(st *State) *Term {
	ins := li.header.Instrs
	if len(ins) < 5 {
		return nil
	}
	ld, ok := ins[0].(*ssa.UnOp)
	if !ok || ld.Op != token.MUL {
		return nil
	}
	cell, ok := ld.X.(*ssa.Alloc)
	if !ok || cell.Comment != "rangeindex" || cell.Heap {
		return nil
	}
	add, ok := ins[1].(*ssa.BinOp)
	if !ok || add.Op != token.ADD || add.X != ld {
		return nil
	}
	var cmp *ssa.BinOp
	for _, in := range ins[2:] {
		if b, ok := in.(*ssa.BinOp); ok && b.Op == token.LSS && b.X == add {
			cmp = b
		}
	}
	if cmp == nil {
		return nil
	}
	lenVal, ok := fr.Regs[cmp.Y]
	if !ok {
		if _, isC := cmp.Y.(*ssa.Const); !isC {
			return nil
		}
		lenVal = fr.C.constVal(cmp.Y.(*ssa.Const))
	}
	return func(st *State) *Term {
		cv, ok := st.Cells[cell]
		if !ok {
			return nil
		}
		return And(Le(Num(-1), cv.X), Lt(cv.X, lenVal.X), Le(Num(0), lenVal.X))
	}
}

func clauseName(prefix string, cl Clause, i int) string {
	if cl.Label != "" {
		if prefix == "" {
			return cl.Label
		}
		return prefix + "." + cl.Label
	}
	if prefix == "" {
		return fmt.Sprint(i)
	}
	return fmt.Sprintf("%s.%d", prefix, i)
}

func (fr *Frame) backEdge(li *loopInfo, st *State, pos token.Pos) {
	c := fr.C
	fr.midEval = true
	defer func() { fr.midEval = false }()
	name := fmt.Sprintf("L%d", li.ordinal)
	if li.auto != nil {
		if g := li.auto(st); g != nil {
			c.oblige(fr, "inv-step", name+".auto", st, g, "range loop index stays within [-1, len)", pos)
		}
	}
	for _, k := range li.frameKeys {
		c.oblige(fr, "inv-step", name+".frame:"+k, st, fr.frameInv(k, st), "entry-allocated objects keep their "+k+" (implicit frame invariant)", pos)
	}
	if li.spec == nil {
		return
	}
	for i, inv := range li.spec.Invariants {
		g := fr.evalBool(inv.Expr, st, fr.Entry, nil)
		c.oblige(fr, "inv-step", clauseName(name, inv, i), st, g, "loop invariant preserved: "+inv.Src, pos)
	}
	if li.variant != nil {
		v := fr.evalInt(li.spec.Decreases.Expr, st, fr.Entry, nil)
		c.oblige(fr, "dec", name, st, And(Le(Num(0), li.variant), Lt(v, li.variant)), "variant decreases: "+li.spec.Decreases.Src, pos)
	}
}

// step executes one instruction; returns nil when the path ended.
func (fr *Frame) step(st *State, ins ssa.Instruction, b *ssa.BasicBlock, edgeSt map[edge]*State, edgeCond map[edge]*Term) *State {
	c := fr.C
	setEdge := func(si int, cond *Term) {
		succ := b.Succs[si]
		r := And(st.R, cond)
		if succ.Dominates(b) && fr.loops[succ] != nil {
			// back edge
			es := st.clone()
			es.R = r
			if !r.IsFalse() {
				fr.backEdge(fr.loops[succ], es, ins.Pos())
			}
			return
		}
		es := st.clone()
		es.R = r
		edgeSt[edge{b, si}] = es
		edgeCond[edge{b, si}] = r
	}
	switch x := ins.(type) {
	case *ssa.DebugRef:
		return st
	case *ssa.Phi:
		return st // handled at block entry
	case *ssa.Alloc:
		elem := x.Type().(*types.Pointer).Elem()
		if at, isArr := under(elem).(*types.Array); isArr && loopSharedArray(x) && kindOf(at.Elem()) == KInt {
			// backing array for the slices taken of this variable inside a loop (see sliceOp)
			id := st.Alloc
			st.Alloc = Add(st.Alloc, Num(1))
			key := heapKey("S:"+tstr(at.Elem()), "")
			srt := SArr(SInt, SArr(SInt, sortOf(at.Elem())))
			st.heapSet(key, Store(st.heapGet(key, srt), id, ConstArr(srt.Elem, zeroTerm(sortOf(at.Elem())))))
			if fr.sharedArr == nil {
				fr.sharedArr = map[*ssa.Alloc]*Term{}
			}
			fr.sharedArr[x] = id
		}
		if !x.Heap {
			st.Cells[x] = zeroVal(elem)
			fr.Regs[x] = &Val{K: KPtr, T: x.Type(), Cell: x, Frame: fr}
			return st
		}
		fr.Regs[x] = fr.allocObj(st, x.Type(), elem)
		return st
	case *ssa.Store:
		p := fr.val(st, x.Addr)
		v := fr.val(st, x.Val)
		fr.checkNil(st, p, "store", x.Pos())
		fr.store(st, p, x.Val.Type(), v)
		if al, ok := x.Addr.(*ssa.Alloc); ok && fr.sharedArr != nil {
			if id, shared := fr.sharedArr[al]; shared && v.K == KArr {
				at := under(al.Type().(*types.Pointer).Elem()).(*types.Array)
				key := heapKey("S:"+tstr(at.Elem()), "")
				srt := SArr(SInt, SArr(SInt, sortOf(at.Elem())))
				st.heapSet(key, Store(st.heapGet(key, srt), id, v.X))
			}
		}
		return st
	case *ssa.UnOp:
		fr.Regs[x] = fr.unop(st, x)
		return st
	case *ssa.BinOp:
		fr.Regs[x] = fr.binop(st, x.Op, fr.val(st, x.X), fr.val(st, x.Y), x.Type(), x.Pos())
		return st
	case *ssa.Convert:
		fr.Regs[x] = fr.convert(st, fr.val(st, x.X), x.X.Type(), x.Type())
		return st
	case *ssa.ChangeType:
		v := fr.val(st, x.X)
		fr.Regs[x] = retype(v, x.Type())
		return st
	case *ssa.ChangeInterface:
		v := fr.val(st, x.X)
		fr.Regs[x] = &Val{K: KIface, T: x.Type(), X: v.X}
		return st
	case *ssa.MakeInterface:
		fr.Regs[x] = fr.makeIface(st, fr.val(st, x.X), x.X.Type(), x.Type())
		return st
	case *ssa.TypeAssert:
		fr.Regs[x] = fr.typeAssert(st, x)
		return st
	case *ssa.Extract:
		t := fr.val(st, x.Tuple)
		fr.Regs[x] = t.Fs[x.Index]
		return st
	case *ssa.Field:
		v := fr.val(st, x.X)
		fr.Regs[x] = v.Fs[x.Field]
		return st
	case *ssa.FieldAddr:
		p := fr.val(st, x.X)
		fr.checkNil(st, p, "field", x.Pos())
		stt := under(x.X.Type().(*types.Pointer).Elem()).(*types.Struct)
		np := *p
		np.T = x.Type()
		if p.Cell != nil {
			np.CPath = append(append([]int(nil), p.CPath...), x.Field)
		} else {
			np.Path = p.Path + "." + stt.Field(x.Field).Name()
		}
		fr.Regs[x] = &np
		return st
	case *ssa.Index:
		v := fr.val(st, x.X)
		i := fr.val(st, x.Index)
		switch v.K {
		case KArr:
			n := under(v.T).(*types.Array).Len()
			fr.checkBounds(st, i.X, Num(n), "index", x.Pos())
			el := Select(v.X, i.X)
			elemRangeFact(el, x.Type())
			fr.Regs[x] = &Val{K: kindOf(x.Type()), T: x.Type(), X: el}
		case KStr:
			fr.checkBounds(st, i.X, App("gstr.len", SInt, v.X), "index", x.Pos())
			r := App("gstr.at", SInt, v.X, i.X)
			c.addFact(And(Le(Num(0), r), Le(r, Num(255))))
			fr.Regs[x] = &Val{K: KInt, T: x.Type(), X: r}
		default:
			unsup("Index on %v", v.T)
		}
		return st
	case *ssa.IndexAddr:
		fr.Regs[x] = fr.indexAddr(st, x)
		return st
	case *ssa.Slice:
		fr.Regs[x] = fr.sliceOp(st, x)
		return st
	case *ssa.MakeSlice:
		ln := fr.val(st, x.Len).X
		cp := fr.val(st, x.Cap).X
		fr.Regs[x] = fr.makeSlice(st, x.Type(), ln, cp)
		return st
	case *ssa.MakeMap:
		fr.Regs[x] = fr.makeMap(st, x.Type())
		return st
	case *ssa.MapUpdate:
		fr.mapUpdate(st, fr.val(st, x.Map), fr.val(st, x.Key), fr.val(st, x.Value))
		return st
	case *ssa.Lookup:
		fr.Regs[x] = fr.lookup(st, x)
		return st
	case *ssa.Range:
		mv := fr.val(st, x.X)
		fr.Regs[x] = &Val{K: KOpaque, T: x.Type(), X: Fresh("rangeiter", SInt), Fs: []*Val{mv}}
		if mv.K == KMap {
			// ghost: the set of keys this iteration has produced so far (per map object; `visited(m, k)` in specifications)
			ks := mapKeySort(mv.T)
			key := "M:" + tstr(mv.T) + "#visited"
			srt := SArr(SInt, SArr(ks, SBool))
			st.heapSet(key, Store(st.heapGet(key, srt), mv.X, ConstArr(SArr(ks, SBool), TFalse)))
		}
		return st
	case *ssa.Next:
		fr.Regs[x] = fr.next(st, x)
		return st
	case *ssa.MakeClosure:
		fn := x.Fn.(*ssa.Function)
		v := &Val{K: KFunc, T: x.Type(), X: Fresh("closure", SInt), Fn: fn}
		for _, bnd := range x.Bindings {
			v.Binds = append(v.Binds, fr.val(st, bnd))
		}
		c.addFact(Lt(Num(0), v.X))
		fr.Regs[x] = v
		return st
	case *ssa.Call:
		r, ns := fr.call(st, &x.Call, x.Pos())
		if ns == nil {
			return nil // no-return call
		}
		fr.Regs[x] = r
		return ns
	case *ssa.Defer:
		// arguments (and the function value) are evaluated now, the call runs at rundefers
		d := deferRec{cond: st.R, call: &x.Call, pos: x.Pos()}
		if !harmlessDefer(callName(&x.Call)) {
			func() {
				defer func() { recover() }()
				if x.Call.IsInvoke() {
					d.args = append(d.args, fr.val(st, x.Call.Value))
				} else if _, isB := x.Call.Value.(*ssa.Builtin); !isB {
					d.fn = fr.val(st, x.Call.Value)
				}
				for _, a := range x.Call.Args {
					d.args = append(d.args, fr.val(st, a))
				}
				d.ok = true
			}()
		}
		fr.deferred = append(fr.deferred, d)
		return st
	case *ssa.RunDefers:
		return fr.runDefers(st)
	case *ssa.Go:
		c.note("%s: go statement abstracted (heap havoc)", fr.Fn)
		st.havocAll()
		c.reassertConstGlobals(st)
		return st
	case *ssa.Jump:
		setEdge(0, TTrue)
		return nil
	case *ssa.If:
		cond := fr.val(st, x.Cond).X
		setEdge(0, cond)
		setEdge(1, Not(cond))
		return nil
	case *ssa.Return:
		var vals []*Val
		for _, r := range x.Results {
			vals = append(vals, fr.val(st, r))
		}
		fr.Returns = append(fr.Returns, retPoint{st: st, vals: vals, pos: x.Pos(), idx: retOrdinal(fr.Fn, x)})
		return nil
	case *ssa.Panic:
		fr.Panics = append(fr.Panics, retPoint{st: st, pos: x.Pos(), idx: len(fr.Panics)})
		return nil
	case *ssa.Send, *ssa.Select, *ssa.MakeChan:
		c.note("%s: channel operation abstracted (heap havoc)", fr.Fn)
		st.havocAll()
		c.reassertConstGlobals(st)
		if v, ok := ins.(ssa.Value); ok {
			var facts []*Term
			fr.Regs[v] = freshVal(v.Type(), "chan", &facts)
			for _, f := range facts {
				c.addFact(f)
			}
		}
		return st
	case *ssa.SliceToArrayPointer:
		unsup("SliceToArrayPointer")
	}
	unsup("instruction %T (%s)", ins, ins)
	return nil
}

// retOrdinal numbers return instructions in block-index (source) order.
func retOrdinal(fn *ssa.Function, r *ssa.Return) int {
	n := 0
	for _, b := range fn.Blocks {
		for _, ins := range b.Instrs {
			if x, ok := ins.(*ssa.Return); ok {
				if x == r {
					return n
				}
				n++
			}
		}
	}
	return n
}

func retype(v *Val, t types.Type) *Val {
	n := *v
	n.T = t
	if n.K == KPtr && v.Cell == nil {
		if p, ok := under(t).(*types.Pointer); ok && v.Path == "" && v.Idx == nil {
			n.Root = rootKey(p.Elem())
			// ChangeType between pointer types with identical underlying base types shares the same object; to keep a
			// single heap for both views we canonicalise struct roots by their underlying type only when unnamed.
			if v.Root != n.Root {
				n.Root = v.Root
			}
		}
	}
	if n.K == KStruct {
		// field values keep their own types
	}
	return &n
}

func (fr *Frame) allocObj(st *State, ptrT types.Type, elem types.Type) *Val {
	ref := st.Alloc
	st.Alloc = Add(st.Alloc, Num(1))
	p := mkPtr(ptrT, ref)
	if strings.HasPrefix(p.Root, "S:") {
		et := under(elem).(*types.Array).Elem()
		if k := kindOf(et); k == KStruct || k == KSlice || k == KArr {
			var ls []leaf
			leavesOf(et, "", &ls)
			for _, l := range ls {
				key := heapKey(p.Root, l.path)
				srt := SArr(SInt, SArr(SInt, sortOf(l.t)))
				arr := st.heapGet(key, srt)
				st.heapSet(key, Store(arr, ref, ConstArr(srt.Elem, zeroTerm(sortOf(l.t)))))
			}
			return p
		}
		key := heapKey(p.Root, "")
		srt := SArr(SInt, SArr(SInt, sortOf(et)))
		arr := st.heapGet(key, srt)
		st.heapSet(key, Store(arr, ref, ConstArr(srt.Elem, zeroTerm(sortOf(et)))))
		return p
	}
	if isBigIntPtr(ptrT) {
		key := "bigval"
		arr := st.heapGet(key, SArr(SInt, SInt))
		st.heapSet(key, Store(arr, ref, Num(0)))
		return p
	}
	var ls []leaf
	leavesOf(elem, "", &ls)
	for _, l := range ls {
		key := heapKey(p.Root, l.path)
		srt := SArr(SInt, sortOf(l.t))
		arr := st.heapGet(key, srt)
		st.heapSet(key, Store(arr, ref, zeroTerm(sortOf(l.t))))
	}
	return p
}

func (fr *Frame) checkNil(st *State, p *Val, what string, pos token.Pos) {
	if !fr.Safety || fr.C.noObligations > 0 || p.Cell != nil || strings.HasPrefix(p.Root, "G:") {
		return
	}
	if p.X.Op == "app" && strings.HasPrefix(p.X.Name, "gref!") {
		return
	}
	g := Neq(p.X, Num(0))
	fr.C.oblige(fr, "safe", "nil@"+fr.C.posKey(pos), st, g, "nil dereference ("+what+")", pos)
}

// posKey names a program point: the line offset from the start of the function under verification (stable under edits
// elsewhere in the file), or file:line for points in inlined callees.
func (c *Ctx) posKey(pos token.Pos) string {
	if !pos.IsValid() {
		return "?"
	}
	p := c.P.Fset.Position(pos)
	if c.curTop != nil && c.curTop.Syntax() != nil {
		s := c.curTop.Syntax()
		if pos >= s.Pos() && pos <= s.End() {
			return fmt.Sprintf("+%d", p.Line-c.P.Fset.Position(s.Pos()).Line)
		}
	}
	f := p.Filename
	if i := strings.LastIndex(f, "/"); i >= 0 {
		f = f[i+1:]
	}
	return fmt.Sprintf("%s:%d", strings.TrimSuffix(f, ".go"), p.Line)
}

func (fr *Frame) checkBounds(st *State, i, n *Term, what string, pos token.Pos) {
	if !fr.Safety || fr.C.noObligations > 0 {
		return
	}
	g := And(Le(Num(0), i), Lt(i, n))
	fr.C.oblige(fr, "safe", "bounds@"+fr.C.posKey(pos), st, g, "index in bounds ("+what+")", pos)
}

func (fr *Frame) unop(st *State, x *ssa.UnOp) *Val {
	v := fr.val(st, x.X)
	switch x.Op {
	case token.MUL:
		fr.checkNil(st, v, "load", x.Pos())
		return fr.load(st, v, x.Type())
	case token.NOT:
		return &Val{K: KBool, T: x.Type(), X: Not(v.X)}
	case token.SUB:
		if v.K != KInt {
			return fr.C.opaque(x.Type(), "neg")
		}
		return &Val{K: KInt, T: x.Type(), X: wrap(Neg(v.X), x.Type())}
	case token.XOR:
		// ^x = -x-1 for signed; for unsigned 2^n-1-x
		if lo, hi, ok := intRange(x.Type()); ok {
			if lo.Val.Sign() == 0 {
				return &Val{K: KInt, T: x.Type(), X: Sub(hi, v.X)}
			}
			return &Val{K: KInt, T: x.Type(), X: Sub(Neg(v.X), Num(1))}
		}
	case token.ARROW:
		fr.C.note("%s: channel receive abstracted", fr.Fn)
		st.havocAll()
		fr.C.reassertConstGlobals(st)
		var facts []*Term
		r := freshVal(x.Type(), "recv", &facts)
		for _, f := range facts {
			fr.C.addFact(f)
		}
		return r
	}
	unsup("unop %s", x.Op)
	return nil
}

func (c *Ctx) opaque(t types.Type, why string) *Val {
	var facts []*Term
	v := freshVal(t, "opaque!"+why, &facts)
	for _, f := range facts {
		c.addFact(f)
	}
	return v
}

func isUnsigned(t types.Type) bool {
	lo, _, ok := intRange(t)
	return ok && lo.Val.Sign() == 0
}

// truncated division helpers (Go semantics) on top of SMT-LIB Euclidean div/mod
func quoT(a, b *Term) *Term {
	if a.IsConst() && b.IsConst() && b.Val.Sign() != 0 {
		return NumB(new(bigInt).Quo(a.Val, b.Val))
	}
	// if a >= 0: div a b ; else -(div (-a) b)
	return Ite(Le(Num(0), a), Div(a, b), Neg(Div(Neg(a), b)))
}
func remT(a, b *Term) *Term {
	if a.IsConst() && b.IsConst() && b.Val.Sign() != 0 {
		return NumB(new(bigInt).Rem(a.Val, b.Val))
	}
	return Sub(a, Mul(b, quoT(a, b)))
}

func (fr *Frame) binop(st *State, op token.Token, a, b *Val, rt types.Type, pos token.Pos) *Val {
	c := fr.C
	switch op {
	case token.EQL:
		return &Val{K: KBool, T: rt, X: fr.eqGo(a, b)}
	case token.NEQ:
		return &Val{K: KBool, T: rt, X: Not(fr.eqGo(a, b))}
	}
	if a.K == KStr {
		switch op {
		case token.ADD:
			r := App("gstr.cat", SStr, a.X, b.X)
			c.addFact(Eq(App("gstr.len", SInt, r), Add(App("gstr.len", SInt, a.X), App("gstr.len", SInt, b.X))))
			return &Val{K: KStr, T: rt, X: r}
		case token.LSS:
			return &Val{K: KBool, T: rt, X: c.strLt(a.X, b.X)}
		case token.GTR:
			return &Val{K: KBool, T: rt, X: c.strLt(b.X, a.X)}
		case token.LEQ:
			return &Val{K: KBool, T: rt, X: Not(c.strLt(b.X, a.X))}
		case token.GEQ:
			return &Val{K: KBool, T: rt, X: Not(c.strLt(a.X, b.X))}
		}
	}
	if a.K == KOpaque || b.K == KOpaque {
		return c.opaque(rt, "float-op")
	}
	if a.K == KBool {
		switch op {
		case token.AND:
			return &Val{K: KBool, T: rt, X: And(a.X, b.X)}
		case token.OR:
			return &Val{K: KBool, T: rt, X: Or(a.X, b.X)}
		}
	}
	if a.K != KInt {
		unsup("binop %s on %v", op, a.T)
	}
	x, y := a.X, b.X
	var r *Term
	switch op {
	case token.LSS:
		return &Val{K: KBool, T: rt, X: Lt(x, y)}
	case token.LEQ:
		return &Val{K: KBool, T: rt, X: Le(x, y)}
	case token.GTR:
		return &Val{K: KBool, T: rt, X: Gt(x, y)}
	case token.GEQ:
		return &Val{K: KBool, T: rt, X: Ge(x, y)}
	case token.ADD:
		r = wrap(Add(x, y), rt)
	case token.SUB:
		r = wrap(Sub(x, y), rt)
	case token.MUL:
		r = wrap(Mul(x, y), rt)
	case token.QUO:
		if fr.Safety && c.noObligations == 0 {
			c.oblige(fr, "safe", "div0@"+c.posKey(pos), st, Neq(y, Num(0)), "division by zero", pos)
		}
		if isUnsigned(rt) {
			r = Div(x, y)
		} else {
			r = wrap(quoT(x, y), rt)
		}
	case token.REM:
		if fr.Safety && c.noObligations == 0 {
			c.oblige(fr, "safe", "div0@"+c.posKey(pos), st, Neq(y, Num(0)), "division by zero", pos)
		}
		if isUnsigned(rt) {
			r = Mod(x, y)
		} else {
			r = remT(x, y)
		}
	case token.SHL:
		if y.IsConst() && y.Val.IsInt64() && y.Val.Int64() < 256 {
			r = wrap(Mul(x, Pow2(uint(y.Val.Int64()))), rt)
		} else {
			r = wrap(Mul(x, c.pow2Term(y)), rt)
		}
	case token.SHR:
		if y.IsConst() && y.Val.IsInt64() && y.Val.Int64() < 256 {
			r = Div(x, Pow2(uint(y.Val.Int64()))) // floor division = arithmetic shift
		} else {
			r = Div(x, c.pow2Term(y))
		}
	case token.AND:
		if m, ok := maskBits(y); ok && isUnsigned(rt) {
			r = Mod(x, Pow2(m))
		} else if m, ok := maskBits(x); ok && isUnsigned(rt) {
			r = Mod(y, Pow2(m))
		} else {
			r = c.bitop("bvand", x, y, rt)
		}
	case token.OR:
		r = c.bitop("bvor", x, y, rt)
	case token.XOR:
		r = c.bitop("bvxor", x, y, rt)
	case token.AND_NOT:
		r = c.bitop("bvandnot", x, y, rt)
	default:
		unsup("binop %s", op)
	}
	return &Val{K: KInt, T: rt, X: r}
}

func maskBits(t *Term) (uint, bool) {
	if !t.IsConst() || t.Val.Sign() <= 0 {
		return 0, false
	}
	v := new(bigInt).Add(t.Val, bigOne)
	if v.BitLen() > 0 && new(bigInt).And(v, t.Val).Sign() == 0 {
		return uint(v.BitLen() - 1), true
	}
	return 0, false
}

func (c *Ctx) pow2Term(y *Term) *Term {
	r := App("pow2", SInt, y)
	// instances for small shifts are given on demand as facts
	c.addFact(Lt(Num(0), r))
	for i := int64(0); i <= 64; i += 8 {
		c.addFact(Implies(Eq(y, Num(i)), Eq(r, Pow2(uint(i)))))
	}
	return r
}

func (c *Ctx) bitop(name string, x, y *Term, rt types.Type) *Term {
	if x.IsConst() && y.IsConst() && x.Val.Sign() >= 0 && y.Val.Sign() >= 0 {
		switch name {
		case "bvand":
			return NumB(new(bigInt).And(x.Val, y.Val))
		case "bvor":
			return NumB(new(bigInt).Or(x.Val, y.Val))
		case "bvxor":
			return NumB(new(bigInt).Xor(x.Val, y.Val))
		}
	}
	r := App(name+"!"+tstr(rt), SInt, x, y)
	lo, hi, ok := intRange(rt)
	if ok {
		c.addFact(And(Le(lo, r), Le(r, hi)))
	}
	if name == "bvor" && isUnsigned(rt) {
		// x|y >= max(x,y), x|y <= x+y
		c.addFact(And(Le(x, r), Le(y, r), Le(r, Add(x, y))))
	}
	if name == "bvand" && isUnsigned(rt) {
		c.addFact(And(Le(r, x), Le(r, y)))
	}
	c.note("bit operation %s modelled as uninterpreted function with range facts", name)
	return r
}

// orderAxioms states, once per verification unit, that string < and the lexicographic byte order are transitive
// (assumed library facts; antisymmetry and totality are added per compared pair).
func (c *Ctx) orderAxioms() {
	for _, f := range globalFacts {
		if f == orderAxiomMarker {
			return
		}
	}
	c.addFact(orderAxiomMarker)
	x, y, z := BoundVar("x", SStr), BoundVar("y", SStr), BoundVar("z", SStr)
	c.addFact(Forall([]*Term{x, y, z}, Implies(And(App("gstr.lt", SBool, x, y), App("gstr.lt", SBool, y, z)), App("gstr.lt", SBool, x, z))))
	u, v, w := BoundVar("u", SInt), BoundVar("v", SInt), BoundVar("w", SInt)
	cmp := func(a, b *Term) *Term { return App("bytes.cmp", SInt, a, b) }
	c.addFact(Forall([]*Term{u, v, w}, Implies(And(Le(cmp(u, v), Num(0)), Le(cmp(v, w), Num(0))), Le(cmp(u, w), Num(0)))))
	c.addFact(Forall([]*Term{u, v, w}, Implies(And(Le(cmp(u, v), Num(0)), Le(cmp(v, w), Num(0)), Eq(cmp(u, w), Num(0))), And(Eq(cmp(u, v), Num(0)), Eq(cmp(v, w), Num(0))))))
}

var orderAxiomMarker = Eq(App("order!axioms", SBool), TTrue)

func (c *Ctx) strLt(a, b *Term) *Term {
	c.orderAxioms()
	r := App("gstr.lt", SBool, a, b)
	// strict total order instances: irreflexive + asymmetric + total for this pair
	c.addFact(Not(And(r, App("gstr.lt", SBool, b, a))))
	c.addFact(Implies(Eq(a, b), Not(r)))
	c.addFact(Or(Eq(a, b), r, App("gstr.lt", SBool, b, a)))
	return r
}

func (fr *Frame) eqGo(a, b *Val) *Term {
	if a.K == KIface && b.K != KIface {
		b = fr.makeIface(nil, b, b.T, a.T)
	} else if b.K == KIface && a.K != KIface {
		a = fr.makeIface(nil, a, a.T, b.T)
	}
	if a.K == KOpaque || b.K == KOpaque {
		if a.X != nil && b.X != nil && a.X.S == b.X.S {
			return Eq(a.X, b.X)
		}
		return Fresh("opaque!eq", SBool)
	}
	return eqVal(a, b)
}

func (fr *Frame) convert(st *State, v *Val, from, to types.Type) *Val {
	c := fr.C
	fk, tk := kindOf(from), kindOf(to)
	switch {
	case fk == KInt && tk == KInt:
		return &Val{K: KInt, T: to, X: wrap(v.X, to)}
	case fk == KInt && tk == KStr:
		return &Val{K: KStr, T: to, X: App("gstr.fromrune", SStr, v.X)}
	case fk == KStr && tk == KSlice:
		// []byte(s): fresh backing with content bytes of s
		ln := App("gstr.len", SInt, v.X)
		c.addFact(Le(Num(0), ln))
		s := fr.makeSlice(st, to, ln, ln)
		key := heapKey("S:"+tstr(under(to).(*types.Slice).Elem()), "")
		arr := st.heapGet(key, SArr(SInt, SArr(SInt, SInt)))
		st.heapSet(key, Store(arr, s.X, App("gstr.bytes", SArr(SInt, SInt), v.X)))
		return s
	case fk == KSlice && tk == KStr:
		key := heapKey("S:"+tstr(under(from).(*types.Slice).Elem()), "")
		arr := st.heapGet(key, SArr(SInt, SArr(SInt, SInt)))
		r := App("gstr.frombytes", SStr, Select(arr, v.X), v.Off, v.Len)
		c.addFact(Eq(App("gstr.len", SInt, r), v.Len))
		return &Val{K: KStr, T: to, X: r}
	case fk == KPtr && tk == KPtr:
		return retype(v, to)
	case fk == KOpaque || tk == KOpaque:
		if fk == KInt && v.X.IsConst() {
			return &Val{K: KOpaque, T: to, X: App("float!of", SInt, v.X)}
		}
		return c.opaque(to, "float-conv")
	case fk == tk:
		return retype(v, to)
	}
	unsup("convert %v -> %v", from, to)
	return nil
}

func (fr *Frame) makeIface(st *State, v *Val, from, to types.Type) *Val {
	c := fr.C
	if v.K == KIface {
		return &Val{K: KIface, T: to, X: v.X}
	}
	tag := c.typeTag(tstr(from))
	switch v.K {
	case KPtr:
		if v.Cell != nil {
			return c.opaque(to, "iface-of-cellptr")
		}
		id := App("box!"+tstr(from), SInt, v.X)
		c.addFact(Lt(Num(0), id))
		c.addFact(Eq(App("dyn", SInt, id), Num(int64(tag))))
		c.addFact(Eq(App("unbox!"+tstr(from), SInt, id), v.X))
		return &Val{K: KIface, T: to, X: id}
	case KInt, KStr, KBool, KMap, KFunc:
		id := App("box!"+tstr(from), SInt, v.X)
		c.addFact(Lt(Num(0), id))
		c.addFact(Eq(App("dyn", SInt, id), Num(int64(tag))))
		c.addFact(Eq(App("unbox!"+tstr(from), v.X.S, id), v.X))
		return &Val{K: KIface, T: to, X: id}
	}
	// aggregates: fresh box with known tag; payload remembered through per-leaf unbox functions is not modelled
	id := Fresh("box!"+tstr(from), SInt)
	c.addFact(Lt(Num(0), id))
	c.addFact(Eq(App("dyn", SInt, id), Num(int64(tag))))
	return &Val{K: KIface, T: to, X: id}
}

func (fr *Frame) typeAssert(st *State, x *ssa.TypeAssert) *Val {
	c := fr.C
	v := fr.val(st, x.X)
	at := x.AssertedType
	var ok *Term
	var res *Val
	if _, isI := under(at).(*types.Interface); isI {
		ok = And(Neq(v.X, Num(0)), App("implements!"+tstr(at), SBool, App("dyn", SInt, v.X)))
		res = &Val{K: KIface, T: at, X: v.X}
	} else {
		tag := c.typeTag(tstr(at))
		ok = And(Neq(v.X, Num(0)), Eq(App("dyn", SInt, v.X), Num(int64(tag))))
		switch kindOf(at) {
		case KPtr:
			res = mkPtr(at, App("unbox!"+tstr(at), SInt, v.X))
			c.addFact(Le(Num(0), res.X))
		case KInt, KStr, KBool, KMap, KFunc:
			res = &Val{K: kindOf(at), T: at, X: App("unbox!"+tstr(at), sortOf(at), v.X)}
		default:
			res = c.opaque(at, "typeassert")
		}
	}
	if x.CommaOk {
		z := zeroVal(at)
		return &Val{K: KTuple, T: x.Type(), Fs: []*Val{iteVal(ok, res, z), {K: KBool, T: types.Typ[types.Bool], X: ok}}}
	}
	if fr.Safety && c.noObligations == 0 {
		c.oblige(fr, "safe", "typeassert@"+c.posKey(x.Pos()), st, ok, "type assertion succeeds", x.Pos())
	} else {
		c.addFact(Implies(st.R, ok))
	}
	return res
}

func (fr *Frame) indexAddr(st *State, x *ssa.IndexAddr) *Val {
	base := fr.val(st, x.X)
	i := fr.val(st, x.Index).X
	switch bt := under(x.X.Type()).(type) {
	case *types.Slice:
		fr.checkBounds(st, i, base.Len, "slice index", x.Pos())
		return &Val{K: KPtr, T: x.Type(), X: base.X, Root: "S:" + tstr(bt.Elem()), Idx: SliceIdx(base.Off, i)}
	case *types.Pointer:
		arr := under(bt.Elem()).(*types.Array)
		fr.checkBounds(st, i, Num(arr.Len()), "array index", x.Pos())
		np := *base
		np.T = x.Type()
		if base.Idx != nil {
			unsup("nested array indexing")
		}
		np.Idx = i
		return &np
	}
	unsup("IndexAddr on %v", x.X.Type())
	return nil
}

func (fr *Frame) makeSlice(st *State, t types.Type, ln, cp *Term) *Val {
	ref := st.Alloc
	st.Alloc = Add(st.Alloc, Num(1))
	et := under(t).(*types.Slice).Elem()
	root := "S:" + tstr(et)
	var ls []leaf
	leavesOf(et, "", &ls)
	for _, l := range ls {
		key := heapKey(root, l.path)
		srt := SArr(SInt, SArr(SInt, sortOf(l.t)))
		arr := st.heapGet(key, srt)
		st.heapSet(key, Store(arr, ref, ConstArr(srt.Elem, zeroTerm(sortOf(l.t)))))
	}
	return &Val{K: KSlice, T: t, X: ref, Off: Num(0), Len: ln, Cap: cp}
}

func (fr *Frame) sliceOp(st *State, x *ssa.Slice) *Val {
	base := fr.val(st, x.X)
	c := fr.C
	var lo, hi, mx *Term
	if x.Low != nil {
		lo = fr.val(st, x.Low).X
	} else {
		lo = Num(0)
	}
	switch bt := under(x.X.Type()).(type) {
	case *types.Slice:
		if x.High != nil {
			hi = fr.val(st, x.High).X
		} else {
			hi = base.Len
		}
		if x.Max != nil {
			mx = fr.val(st, x.Max).X
		} else {
			mx = base.Cap
		}
		if fr.Safety && c.noObligations == 0 {
			c.oblige(fr, "safe", "slice@"+c.posKey(x.Pos()), st, And(Le(Num(0), lo), Le(lo, hi), Le(hi, mx), Le(mx, base.Cap)), "slice bounds", x.Pos())
		}
		res := &Val{K: KSlice, T: x.Type(), X: base.X, Off: Add(base.Off, lo), Len: Sub(hi, lo), Cap: Sub(mx, lo)}
		// abstract byte strings: s[1:] is the tail of s
		if eb, ok := under(bt.Elem()).(*types.Basic); ok && eb.Kind() == types.Uint8 && x.High == nil && lo.IsConst() && lo.Val.Cmp(bigOne) == 0 {
			arr := Select(st.heapGet("S:byte", SArr(SInt, SArr(SInt, SInt))), base.X)
			whole := c.bytesVal(arr, base.Off, base.Len)
			tail := c.bytesVal(arr, res.Off, res.Len)
			c.addFact(Implies(Le(Num(1), base.Len), Eq(tail, c.btail(whole))))
		}
		return res
	case *types.Basic: // string
		ln := App("gstr.len", SInt, base.X)
		if x.High != nil {
			hi = fr.val(st, x.High).X
		} else {
			hi = ln
		}
		if fr.Safety && c.noObligations == 0 {
			c.oblige(fr, "safe", "slice@"+c.posKey(x.Pos()), st, And(Le(Num(0), lo), Le(lo, hi), Le(hi, ln)), "string slice bounds", x.Pos())
		}
		r := App("gstr.sub", SStr, base.X, lo, hi)
		c.addFact(Eq(App("gstr.len", SInt, r), Sub(hi, lo)))
		return &Val{K: KStr, T: x.Type(), X: r}
	case *types.Pointer:
		arr := under(bt.Elem()).(*types.Array)
		n := Num(arr.Len())
		if x.High != nil {
			hi = fr.val(st, x.High).X
		} else {
			hi = n
		}
		if x.Max != nil {
			mx = fr.val(st, x.Max).X
		} else {
			mx = n
		}
		if fr.Safety && c.noObligations == 0 {
			c.oblige(fr, "safe", "slice@"+c.posKey(x.Pos()), st, And(Le(Num(0), lo), Le(lo, hi), Le(hi, mx), Le(mx, n)), "array slice bounds", x.Pos())
		}
		// a[:] of a byte array of at most 64 bytes: its abstract byte string is arrbytes(value of the array, n)
		wholeBytes := func(content *Term) {
			if eb, ok := under(arr.Elem()).(*types.Basic); ok && eb.Kind() == types.Uint8 && arr.Len() <= 64 && lo.IsConst() && lo.Val.Sign() == 0 && hi == n {
				c.addFact(Eq(c.bytesVal(content, Num(0), n), App("arrbytes", SInt, arrAsInt(&Val{K: KArr, T: bt.Elem(), X: content}), n)))
			}
		}
		if base.Cell == nil && strings.HasPrefix(base.Root, "S:") && base.Idx == nil {
			wholeBytes(Select(st.heapGet(heapKey("S:"+tstr(arr.Elem()), ""), SArr(SInt, SArr(SInt, sortOf(arr.Elem())))), base.X))
			return &Val{K: KSlice, T: x.Type(), X: base.X, Off: lo, Len: Sub(hi, lo), Cap: Sub(mx, lo)}
		}
		// slice of an array that lives inside a struct or a local cell: read-only copy into a fresh backing array
		if al, ok := x.X.(*ssa.Alloc); ok && loopSharedArray(al) {
			// ... which would be wrong for a variable declared outside a loop, re-assigned in it and sliced in it (a range
			// variable under the module's Go version < 1.22): every slice taken in the loop is a window onto the one array.
			// Such a variable has a backing array of its own (allocated with the variable, kept in step by every store to it).
			if id, ok := fr.sharedArr[al]; ok {
				wholeBytes(Select(st.heapGet(heapKey("S:"+tstr(arr.Elem()), ""), SArr(SInt, SArr(SInt, sortOf(arr.Elem())))), id))
				c.note("%s: the array variable %q is declared outside a loop and sliced inside it: its slices share one backing array", fr.Fn, al.Comment)
				return &Val{K: KSlice, T: x.Type(), X: id, Off: lo, Len: Sub(hi, lo), Cap: Sub(mx, lo)}
			}
			unsup("slice of the loop-shared array variable %q without a backing array", al.Comment)
		}
		av := fr.load(st, base, bt.Elem())
		s := fr.makeSlice(st, x.Type(), Sub(hi, lo), Sub(mx, lo))
		key := heapKey("S:"+tstr(arr.Elem()), "")
		h := st.heapGet(key, SArr(SInt, SArr(SInt, sortOf(arr.Elem()))))
		st.heapSet(key, Store(h, s.X, av.X))
		s.Off = lo
		wholeBytes(av.X)
		c.note("%s: slice of interior array modelled as a copy (writes through it are not propagated)", fr.Fn)
		return s
	}
	unsup("Slice on %v", x.X.Type())
	return nil
}

// ---------------------------------------------------------------------------------------------
// maps: heap "M:<type>#val" : Array Int (Array K V), "#has": Array Int (Array K Bool), "#len": Array Int Int

func mapKeySort(t types.Type) *Sort {
	k := under(t).(*types.Map).Key()
	if kindOf(k) == KStruct {
		return SInt
	}
	return sortOf(k)
}

func (fr *Frame) mapKeyTerm(k *Val) *Term {
	if k.K == KStruct {
		// encode struct keys through an injective uninterpreted function of its fields
		var args []*Term
		var flat func(v *Val)
		flat = func(v *Val) {
			if v.K == KStruct {
				for _, f := range v.Fs {
					flat(f)
				}
			} else {
				args = append(args, v.X)
			}
		}
		flat(k)
		return App("structkey!"+tstr(k.T), SInt, args...)
	}
	return k.X
}

func (fr *Frame) makeMap(st *State, t types.Type) *Val {
	ref := st.Alloc
	st.Alloc = Add(st.Alloc, Num(1))
	mt := under(t).(*types.Map)
	ks := mapKeySort(t)
	root := "M:" + tstr(t)
	has := st.heapGet(root+"#has", SArr(SInt, SArr(ks, SBool)))
	st.heapSet(root+"#has", Store(has, ref, ConstArr(SArr(ks, SBool), TFalse)))
	ln := st.heapGet(root+"#len", SArr(SInt, SInt))
	st.heapSet(root+"#len", Store(ln, ref, Num(0)))
	_ = mt
	return &Val{K: KMap, T: t, X: ref}
}

func (fr *Frame) mapValLeaves(t types.Type) []leaf {
	var ls []leaf
	leavesOf(under(t).(*types.Map).Elem(), "", &ls)
	return ls
}

func (fr *Frame) mapUpdate(st *State, m, k, v *Val) {
	t := m.T
	ks := mapKeySort(t)
	root := "M:" + tstr(t)
	kt := fr.mapKeyTerm(k)
	has := st.heapGet(root+"#has", SArr(SInt, SArr(ks, SBool)))
	was := Select(Select(has, m.X), kt)
	st.heapSet(root+"#has", Store(has, m.X, Store(Select(has, m.X), kt, TTrue)))
	ln := st.heapGet(root+"#len", SArr(SInt, SInt))
	st.heapSet(root+"#len", Store(ln, m.X, Ite(was, Select(ln, m.X), Add(Select(ln, m.X), Num(1)))))
	fr.mapStoreVal(st, root, ks, m.X, kt, under(t).(*types.Map).Elem(), "", v)
}

func (fr *Frame) mapStoreVal(st *State, root string, ks *Sort, ref, kt *Term, et types.Type, path string, v *Val) {
	switch u := under(et).(type) {
	case *types.Struct:
		for i := 0; i < u.NumFields(); i++ {
			fr.mapStoreVal(st, root, ks, ref, kt, u.Field(i).Type(), path+"."+u.Field(i).Name(), v.Fs[i])
		}
		return
	case *types.Slice:
		for _, p := range []struct {
			s string
			t *Term
		}{{"#arr", v.X}, {"#off", v.Off}, {"#len", v.Len}, {"#cap", v.Cap}} {
			key := root + "#val" + path + p.s
			arr := st.heapGet(key, SArr(SInt, SArr(ks, SInt)))
			st.heapSet(key, Store(arr, ref, Store(Select(arr, ref), kt, p.t)))
		}
		return
	}
	key := root + "#val" + path
	arr := st.heapGet(key, SArr(SInt, SArr(ks, sortOf(et))))
	st.heapSet(key, Store(arr, ref, Store(Select(arr, ref), kt, v.X)))
}

func (fr *Frame) mapLoadVal(st *State, root string, ks *Sort, ref, kt *Term, et types.Type, path string) *Val {
	switch u := under(et).(type) {
	case *types.Struct:
		v := &Val{K: KStruct, T: et}
		for i := 0; i < u.NumFields(); i++ {
			v.Fs = append(v.Fs, fr.mapLoadVal(st, root, ks, ref, kt, u.Field(i).Type(), path+"."+u.Field(i).Name()))
		}
		return v
	case *types.Slice:
		rd := func(s string) *Term {
			arr := st.heapGet(root+"#val"+path+s, SArr(SInt, SArr(ks, SInt)))
			return Select(Select(arr, ref), kt)
		}
		return &Val{K: KSlice, T: et, X: rd("#arr"), Off: rd("#off"), Len: rd("#len"), Cap: rd("#cap")}
	}
	arr := st.heapGet(root+"#val"+path, SArr(SInt, SArr(ks, sortOf(et))))
	x := Select(Select(arr, ref), kt)
	if k := kindOf(et); (k == KPtr || k == KIface || k == KMap) && x.Op == "select" {
		addTypeFact(Lt(x, st.Alloc))
	}
	if kindOf(et) == KPtr {
		return mkPtr(et, x)
	}
	return &Val{K: kindOf(et), T: et, X: x}
}

func (fr *Frame) lookup(st *State, x *ssa.Lookup) *Val {
	m := fr.val(st, x.X)
	k := fr.val(st, x.Index)
	if m.K == KStr {
		r := App("gstr.at", SInt, m.X, k.X)
		fr.C.addFact(And(Le(Num(0), r), Le(r, Num(255))))
		fr.checkBounds(st, k.X, App("gstr.len", SInt, m.X), "string index", x.Pos())
		return &Val{K: KInt, T: x.Type(), X: r}
	}
	t := m.T
	ks := mapKeySort(t)
	root := "M:" + tstr(t)
	kt := fr.mapKeyTerm(k)
	et := under(t).(*types.Map).Elem()
	if m.X.IsConst() && m.X.Val.Sign() < 0 {
		if cm, ok := constMaps[m.X.Val.Int64()]; ok {
			// a package-level map that is never written after initialisation
			has := Select(cm.has, kt)
			v := iteVal(has, &Val{K: KInt, T: et, X: Select(cm.val, kt)}, zeroVal(et))
			if x.CommaOk {
				return &Val{K: KTuple, T: x.Type(), Fs: []*Val{v, {K: KBool, T: types.Typ[types.Bool], X: has}}}
			}
			return v
		}
	}
	has := Select(Select(st.heapGet(root+"#has", SArr(SInt, SArr(ks, SBool))), m.X), kt)
	has = And(Neq(m.X, Num(0)), has)
	v := fr.mapLoadVal(st, root, ks, m.X, kt, et, "")
	v = iteVal(has, v, zeroVal(et))
	if x.CommaOk {
		return &Val{K: KTuple, T: x.Type(), Fs: []*Val{v, {K: KBool, T: types.Typ[types.Bool], X: has}}}
	}
	return v
}

func (fr *Frame) next(st *State, x *ssa.Next) *Val {
	c := fr.C
	it := fr.val(st, x.Iter)
	tp := x.Type().(*types.Tuple)
	ok := Fresh("next!ok", SBool)
	res := &Val{K: KTuple, T: x.Type(), Fs: []*Val{{K: KBool, T: types.Typ[types.Bool], X: ok}}}
	var facts []*Term
	kv := freshVal(tp.At(1).Type(), "next!k", &facts)
	vv := freshVal(tp.At(2).Type(), "next!v", &facts)
	for _, f := range facts {
		c.addFact(f)
	}
	if !x.IsString && len(it.Fs) == 1 && it.Fs[0].K == KMap {
		m := it.Fs[0]
		t := m.T
		if _, inv := tp.At(1).Type().(*types.Basic); !(inv && tp.At(1).Type().(*types.Basic).Kind() == types.Invalid) {
			ks := mapKeySort(t)
			root := "M:" + tstr(t)
			kt := fr.mapKeyTerm(kv)
			has := Select(Select(st.heapGet(root+"#has", SArr(SInt, SArr(ks, SBool))), m.X), kt)
			c.addFact(Implies(ok, And(Neq(m.X, Num(0)), has)))
			// each key is produced at most once; when the iteration ends every key of the map has been produced - the latter
			// only for a loop that does not write maps of this type (Go leaves entries added during the iteration unspecified)
			vsrt := SArr(SInt, SArr(ks, SBool))
			vis := st.heapGet(root+"#visited", vsrt)
			mine := Select(vis, m.X)
			c.addFact(Implies(ok, Not(Select(mine, kt))))
			if !fr.loopWritesMap(x.Block(), root) {
				q := BoundVar("k", ks)
				c.addFact(Implies(Not(ok), Forall([]*Term{q}, Implies(Select(Select(st.heapGet(root+"#has", SArr(SInt, SArr(ks, SBool))), m.X), q), Select(mine, q)))))
			} else {
				c.note("%s: a map is written while it (or one of its type) is ranged over: 'every key was visited' is not assumed at the end of that loop", fr.Fn)
			}
			st.heapSet(root+"#visited", Ite(ok, Store(vis, m.X, Store(mine, kt, TTrue)), vis))
			if _, inv2 := tp.At(2).Type().(*types.Basic); !(inv2 && tp.At(2).Type().(*types.Basic).Kind() == types.Invalid) {
				lv := fr.mapLoadVal(st, root, ks, m.X, kt, under(t).(*types.Map).Elem(), "")
				c.addFact(Implies(ok, eqVal(vv, lv)))
			}
		}
		c.note("%s: map iteration order modelled as nondeterministic", fr.Fn)
	}
	res.Fs = append(res.Fs, kv, vv)
	return res
}

// ---------------------------------------------------------------------------------------------

func (fr *Frame) runDefers(st *State) *State {
	c := fr.C
	for i := len(fr.deferred) - 1; i >= 0; i-- {
		d := fr.deferred[i]
		name := callName(d.call)
		if harmlessDefer(name) {
			continue
		}
		// a deferred function or closure of the module runs on the normal (non-panicking) path with recover() == nil
		var callee *ssa.Function
		var closure *Val
		if d.ok && !d.call.IsInvoke() {
			callee = d.call.StaticCallee()
			if d.fn != nil && d.fn.Fn != nil {
				callee = d.fn.Fn
				if len(d.fn.Binds) > 0 {
					closure = d.fn
				}
			}
		}
		if callee != nil && c.inlinable(callee) && fr.Depth < maxInlineDepth && !fr.onStack(callee) && !d.cond.IsFalse() {
			// executed only if the defer statement was reached: run on a copy and merge
			run := st.clone()
			run.R = And(st.R, d.cond)
			skip := st.clone()
			skip.R = And(st.R, Not(d.cond))
			c.recoverNil++
			_, after := fr.inline(run, callee, d.args, closure, d.pos)
			c.recoverNil--
			if after == nil {
				// the deferred function does not return on this path (re-panics): only the skip path continues
				*st = *skip
				continue
			}
			if skip.R.IsFalse() {
				after.R = st.R
				*st = *after
			} else {
				m := mergeStates([]*Term{after.R, skip.R}, []*State{after, skip})
				*st = *m
			}
			continue
		}
		c.note("%s: deferred call %s abstracted (heap havoc at function exit)", fr.Fn, name)
		st.havocAll()
	}
	return st
}

func harmlessDefer(name string) bool {
	for _, s := range []string{".Unlock", ".RUnlock", ".Release", ".Stop", ".Done", ".Close", ".Discard"} {
		if strings.HasSuffix(name, s) {
			return true
		}
	}
	return false
}

func isRecoverClosure(f *ssa.Function) bool {
	for _, b := range f.Blocks {
		for _, ins := range b.Instrs {
			if call, ok := ins.(*ssa.Call); ok {
				if bi, ok := call.Call.Value.(*ssa.Builtin); ok && bi.Name() == "recover" {
					return true
				}
			}
		}
	}
	return false
}

func callName(cc *ssa.CallCommon) string {
	if cc.IsInvoke() {
		return "(" + tstr(cc.Value.Type()) + ")." + cc.Method.Name()
	}
	if f := cc.StaticCallee(); f != nil {
		return f.String()
	}
	if b, ok := cc.Value.(*ssa.Builtin); ok {
		return "builtin." + b.Name()
	}
	return "dynamic:" + cc.Value.Name()
}

// loopWritesMap: does the innermost loop around block b (or anything it calls) write a map of this type?
func (fr *Frame) loopWritesMap(b *ssa.BasicBlock, root string) bool {
	var inner *loopInfo
	for _, li := range fr.loops {
		if li.body[b] && (inner == nil || len(li.body) < len(inner.body)) {
			inner = li
		}
	}
	if inner == nil {
		return true
	}
	w := newWriteSet()
	var bl []*ssa.BasicBlock
	for blk := range inner.body {
		bl = append(bl, blk)
	}
	fr.C.scanWrites(bl, w, 0, map[*ssa.Function]bool{})
	if w.all {
		return true
	}
	if w.prefixes[root] && !w.freshOnly[root] {
		return true
	}
	for p := range w.prefixes {
		if p != root+"#visited" && strings.HasPrefix(p, root+"#") && !w.freshOnly[p] {
			return true
		}
	}
	return false
}

// loopSharedArray: an array-typed local that is declared outside some loop, assigned inside it and sliced inside it.
var loopSharedCache = map[*ssa.Alloc]bool{}

func loopSharedArray(al *ssa.Alloc) bool {
	if r, ok := loopSharedCache[al]; ok {
		return r
	}
	res := false
	if _, isArr := under(al.Type().(*types.Pointer).Elem()).(*types.Array); isArr && al.Referrers() != nil {
		for _, body := range naturalLoops(al.Parent()) {
			if body[al.Block()] {
				continue
			}
			sliced, stored := false, false
			for _, r := range *al.Referrers() {
				switch x := r.(type) {
				case *ssa.Slice:
					if x.X == al && body[x.Block()] {
						sliced = true
					}
				case *ssa.Store:
					if x.Addr == al && body[x.Block()] {
						stored = true
					}
				}
			}
			if sliced && stored {
				res = true
			}
		}
	}
	loopSharedCache[al] = res
	return res
}

var naturalLoopCache = map[*ssa.Function][]map[*ssa.BasicBlock]bool{}

func naturalLoops(fn *ssa.Function) []map[*ssa.BasicBlock]bool {
	if r, ok := naturalLoopCache[fn]; ok {
		return r
	}
	bodies := map[*ssa.BasicBlock]map[*ssa.BasicBlock]bool{}
	for _, b := range fn.Blocks {
		for _, s := range b.Succs {
			if s.Dominates(b) {
				body := bodies[s]
				if body == nil {
					body = map[*ssa.BasicBlock]bool{s: true}
					bodies[s] = body
				}
				var stack []*ssa.BasicBlock
				if !body[b] {
					body[b] = true
					stack = append(stack, b)
				}
				for len(stack) > 0 {
					n := stack[len(stack)-1]
					stack = stack[:len(stack)-1]
					for _, p := range n.Preds {
						if !body[p] {
							body[p] = true
							stack = append(stack, p)
						}
					}
				}
			}
		}
	}
	var out []map[*ssa.BasicBlock]bool
	for _, b := range bodies {
		out = append(out, b)
	}
	naturalLoopCache[fn] = out
	return out
}

package main

// Rename tolerance for source-level local variables mentioned in contracts (ensures-local, invariants, at-call assertions).
//
// A contract names a local by its source name. Renaming that local is a harmless edit, yet the name in the contract then
// resolves to nothing. /verif/checks/aux/locals.json (generated from the unchanged tree by `gvc locals-table`, committed, never
// written by a check) records, per function under contract, every stack/heap cell go/ssa allocates for it in order:
// (source name or kind, element type). When a name is not found in the current function, the table says which position
// (k-th cell of type T out of n) the name had; if the current function still has exactly n cells of type T, and the k-th is
// not one of the names the table knows at another position, the name is bound to that cell and a note is recorded.
// Anything else stays a spec error (UNDECIDED).

import (
	"encoding/json"
	"fmt"
	"go/types"
	"os"
	"path/filepath"
	"sort"

	"golang.org/x/tools/go/ssa"
)

type localCell struct {
	Name string `json:"n"`
	Type string `json:"t"`
}

var localsTable map[string][]localCell

func loadLocalsTable(verif string) {
	b, err := os.ReadFile(filepath.Join(verif, "checks", "aux", "locals.json"))
	if err != nil {
		return
	}
	_ = json.Unmarshal(b, &localsTable)
}

func fnAllocs(fn *ssa.Function) []*ssa.Alloc {
	var out []*ssa.Alloc
	for _, b := range fn.Blocks {
		for _, ins := range b.Instrs {
			if a, ok := ins.(*ssa.Alloc); ok {
				out = append(out, a)
			}
		}
	}
	return out
}

func allocType(a *ssa.Alloc) string {
	return types.TypeString(a.Type().(*types.Pointer).Elem(), nil)
}

func fnCells(fn *ssa.Function) []localCell {
	var out []localCell
	for _, a := range fnAllocs(fn) {
		out = append(out, localCell{a.Comment, allocType(a)})
	}
	return out
}

func fnTableKey(fn *ssa.Function) string {
	return fn.String()
}

// renamedLocals returns, for every position the name had in the unchanged tree (in order), the cell now at that position,
// provided the function's cells of each type involved still line up and none of those positions holds a name the unchanged
// tree knew (that would be a reordering, not a renaming). Nil when the name cannot be placed with certainty.
func renamedLocals(fn *ssa.Function, name string) []*ssa.Alloc {
	tab := localsTable[fnTableKey(fn)]
	if tab == nil {
		return nil
	}
	known := map[string]bool{}
	for _, c := range tab {
		known[c.Name] = true
	}
	cur := fnAllocs(fn)
	var out []*ssa.Alloc
	for idx, c := range tab {
		if c.Name != name {
			continue
		}
		k, n := 0, 0
		for i, d := range tab {
			if d.Type == c.Type {
				if i < idx {
					k++
				}
				n++
			}
		}
		var same []*ssa.Alloc
		for _, a := range cur {
			if allocType(a) == c.Type {
				same = append(same, a)
			}
		}
		if len(same) != n || known[same[k].Comment] {
			return nil
		}
		out = append(out, same[k])
	}
	return out
}

func tableKnows(fn *ssa.Function, name string) bool {
	if fn == nil {
		return false
	}
	for _, c := range localsTable[fnTableKey(fn)] {
		if c.Name == name {
			return true
		}
	}
	return false
}

// renamedFreeVar: the index of a closure's captured variable that had this name in the unchanged tree.
func renamedFreeVar(fn *ssa.Function, name string) int {
	tab := localsTable[fnTableKey(fn)+"#free"]
	if len(tab) != len(fn.FreeVars) {
		return -1
	}
	idx := -1
	for i, c := range tab {
		if c.Name == name {
			if idx >= 0 {
				return -1
			}
			idx = i
		}
	}
	if idx < 0 || types.TypeString(fn.FreeVars[idx].Type(), nil) != tab[idx].Type {
		return -1
	}
	for _, c := range tab {
		if c.Name == fn.FreeVars[idx].Name() {
			return -1
		}
	}
	return idx
}

func cmdLocalsTable(args []string) int {
	P, S, _ := setup("/repo", "/verif")
	out := map[string][]localCell{}
	var keys []string
	for k := range S.Contracts {
		keys = append(keys, k)
	}
	sort.Strings(keys)
	for _, k := range keys {
		ct := S.Contracts[k]
		fn := P.LookupFunc(ct.PkgPath, ct.Key)
		if fn == nil || len(fn.Blocks) == 0 {
			continue
		}
		cells := fnCells(fn)
		if len(cells) > 0 {
			out[fnTableKey(fn)] = cells
		}
		if n := countLoops(fn); n > 0 {
			var ls []localCell
			for i := 0; i < n; i++ {
				ls = append(ls, localCell{"loop", ""})
			}
			out[fnTableKey(fn)+"#loops"] = ls
		}
		if len(fn.FreeVars) > 0 {
			var fv []localCell
			for _, v := range fn.FreeVars {
				fv = append(fv, localCell{v.Name(), types.TypeString(v.Type(), nil)})
			}
			out[fnTableKey(fn)+"#free"] = fv
		}
	}
	b, _ := json.MarshalIndent(out, "", " ")
	dst := "/verif/checks/aux/locals.json"
	if len(args) > 0 {
		dst = args[0]
	}
	if err := os.WriteFile(dst, append(b, '\n'), 0o644); err != nil {
		fmt.Println(err)
		return 2
	}
	fmt.Printf("%d functions, written to %s\n", len(out), dst)
	return 0
}

// countLoops: number of natural-loop headers of the function (targets of back edges).
func countLoops(fn *ssa.Function) int {
	hs := map[*ssa.BasicBlock]bool{}
	for _, b := range fn.Blocks {
		for _, sc := range b.Succs {
			if sc.Dominates(b) {
				hs[sc] = true
			}
		}
	}
	return len(hs)
}

// loopStructureChanged: the function had a different number of loops in the unchanged tree. Loop contracts are keyed by
// ordinal, so they cannot be attached with certainty any more.
func loopStructureChanged(fn *ssa.Function) (was, now int, changed bool) {
	if localsTable == nil {
		return 0, 0, false
	}
	if _, known := localsTable[fnTableKey(fn)]; !known {
		return 0, 0, false
	}
	was = len(localsTable[fnTableKey(fn)+"#loops"])
	now = countLoops(fn)
	return was, now, was != now
}

package main

// Hash-consed SMT term DAG with light simplification.

import (
	"fmt"
	"math/big"
	"sort"
	"strings"
)

type Sort struct {
	Name string // "Int","Bool","Str" or "" for arrays
	Idx  *Sort
	Elem *Sort
}

var (
	SInt  = &Sort{Name: "Int"}
	SBool = &Sort{Name: "Bool"}
	SStr  = &Sort{Name: "Str"}
)

var arrSorts = map[string]*Sort{}

func SArr(idx, elem *Sort) *Sort {
	k := idx.String() + "->" + elem.String()
	if s, ok := arrSorts[k]; ok {
		return s
	}
	s := &Sort{Idx: idx, Elem: elem}
	arrSorts[k] = s
	return s
}

func (s *Sort) String() string {
	if s.Name != "" {
		return s.Name
	}
	return "(Array " + s.Idx.String() + " " + s.Elem.String() + ")"
}
func (s *Sort) IsArr() bool { return s.Name == "" }

type Term struct {
	Op   string // "const" (numeral in Val), "sym" (Name), "true","false", or SMT op / uninterpreted fn name
	Name string
	Val  *big.Int
	Args []*Term
	S    *Sort
	Bnd  []*Term // bound vars for forall/exists
	id   int
	key  string
}

var termTab = map[string]*Term{}
var termCnt int

// Declarations of symbols and uninterpreted functions
type FnDecl struct {
	Name string
	Args []*Sort
	Ret  *Sort
}

var fnDecls = map[string]*FnDecl{}
var fnOrder []string

func declFn(name string, args []*Sort, ret *Sort) {
	if d, ok := fnDecls[name]; ok {
		if d.Ret != ret || len(d.Args) != len(args) {
			panic("redeclared fn with different sort: " + name)
		}
		return
	}
	fnDecls[name] = &FnDecl{name, args, ret}
	fnOrder = append(fnOrder, name)
}

func mk(op, name string, val *big.Int, s *Sort, bnd []*Term, args ...*Term) *Term {
	var sb strings.Builder
	sb.WriteString(op)
	sb.WriteByte('|')
	sb.WriteString(name)
	if val != nil {
		sb.WriteByte('#')
		sb.WriteString(val.String())
	}
	sb.WriteByte('|')
	sb.WriteString(s.String())
	for _, b := range bnd {
		fmt.Fprintf(&sb, "b%d,", b.id)
	}
	for _, a := range args {
		fmt.Fprintf(&sb, "%d,", a.id)
	}
	k := sb.String()
	if t, ok := termTab[k]; ok {
		return t
	}
	termCnt++
	t := &Term{Op: op, Name: name, Val: val, Args: args, S: s, Bnd: bnd, id: termCnt, key: k}
	termTab[k] = t
	return t
}

var (
	TTrue  = mk("true", "", nil, SBool, nil)
	TFalse = mk("false", "", nil, SBool, nil)
)

func Num(i int64) *Term      { return mk("const", "", big.NewInt(i), SInt, nil) }
func NumB(b *big.Int) *Term  { return mk("const", "", new(big.Int).Set(b), SInt, nil) }
func Pow2(n uint) *Term      { return NumB(new(big.Int).Lsh(big.NewInt(1), n)) }
func Bool(b bool) *Term {
	if b {
		return TTrue
	}
	return TFalse
}

var symSeq int

func Sym(name string, s *Sort) *Term {
	declFn(name, nil, s)
	return mk("sym", name, nil, s, nil)
}
func Fresh(prefix string, s *Sort) *Term {
	symSeq++
	return Sym(fmt.Sprintf("%s!%d", prefix, symSeq), s)
}
func BoundVar(name string, s *Sort) *Term {
	symSeq++
	return mk("bvar", fmt.Sprintf("%s!b%d", name, symSeq), nil, s, nil)
}
func App(fn string, ret *Sort, args ...*Term) *Term {
	as := make([]*Sort, len(args))
	for i, a := range args {
		as[i] = a.S
	}
	declFn(fn, as, ret)
	return mk("app", fn, nil, ret, nil, args...)
}

func (t *Term) IsConst() bool { return t.Op == "const" }
func (t *Term) IsTrue() bool  { return t == TTrue }
func (t *Term) IsFalse() bool { return t == TFalse }

func And(ts ...*Term) *Term {
	var out []*Term
	seen := map[int]bool{}
	for _, t := range ts {
		if t == nil {
			continue
		}
		if t.S != SBool {
			panic("And: non-bool " + t.String())
		}
		if t.IsFalse() {
			return TFalse
		}
		if t.IsTrue() || seen[t.id] {
			continue
		}
		if t.Op == "and" {
			for _, a := range t.Args {
				if !seen[a.id] {
					seen[a.id] = true
					out = append(out, a)
				}
			}
			continue
		}
		seen[t.id] = true
		out = append(out, t)
	}
	for _, t := range out {
		if t.Op == "not" && seen[t.Args[0].id] {
			return TFalse
		}
	}
	switch len(out) {
	case 0:
		return TTrue
	case 1:
		return out[0]
	}
	return mk("and", "", nil, SBool, nil, out...)
}

func Or(ts ...*Term) *Term {
	var out []*Term
	seen := map[int]bool{}
	for _, t := range ts {
		if t == nil {
			continue
		}
		if t.S != SBool {
			panic("Or: non-bool " + t.String())
		}
		if t.IsTrue() {
			return TTrue
		}
		if t.IsFalse() || seen[t.id] {
			continue
		}
		if t.Op == "or" {
			for _, a := range t.Args {
				if !seen[a.id] {
					seen[a.id] = true
					out = append(out, a)
				}
			}
			continue
		}
		seen[t.id] = true
		out = append(out, t)
	}
	for _, t := range out {
		if t.Op == "not" && seen[t.Args[0].id] {
			return TTrue
		}
	}
	switch len(out) {
	case 0:
		return TFalse
	case 1:
		return out[0]
	}
	return mk("or", "", nil, SBool, nil, out...)
}

func Not(t *Term) *Term {
	if t.S != SBool {
		panic("Not: non-bool " + t.String())
	}
	switch {
	case t.IsTrue():
		return TFalse
	case t.IsFalse():
		return TTrue
	case t.Op == "not":
		return t.Args[0]
	}
	return mk("not", "", nil, SBool, nil, t)
}

func Implies(a, b *Term) *Term {
	if a.IsTrue() {
		return b
	}
	if a.IsFalse() || b.IsTrue() {
		return TTrue
	}
	if b.IsFalse() {
		return Not(a)
	}
	return mk("=>", "", nil, SBool, nil, a, b)
}

func Iff(a, b *Term) *Term { return Eq(a, b) }

func Ite(c, a, b *Term) *Term {
	if c.IsTrue() {
		return a
	}
	if c.IsFalse() {
		return b
	}
	if a == b {
		return a
	}
	if a.S != b.S {
		panic(fmt.Sprintf("Ite sort mismatch %s vs %s: %s / %s", a.S, b.S, a, b))
	}
	if a.S == SBool {
		if a.IsTrue() && b.IsFalse() {
			return c
		}
		if a.IsFalse() && b.IsTrue() {
			return Not(c)
		}
		if a.IsTrue() {
			return Or(c, b)
		}
		if b.IsFalse() {
			return And(c, a)
		}
		if a.IsFalse() {
			return And(Not(c), b)
		}
		if b.IsTrue() {
			return Or(Not(c), a)
		}
	}
	return mk("ite", "", nil, a.S, nil, c, a, b)
}

func Eq(a, b *Term) *Term {
	if a == b {
		return TTrue
	}
	if a.S != b.S {
		panic(fmt.Sprintf("Eq sort mismatch %s vs %s: %s / %s", a.S, b.S, a, b))
	}
	if a.IsConst() && b.IsConst() {
		return Bool(a.Val.Cmp(b.Val) == 0)
	}
	if a.S == SBool {
		if a.IsTrue() {
			return b
		}
		if b.IsTrue() {
			return a
		}
		if a.IsFalse() {
			return Not(b)
		}
		if b.IsFalse() {
			return Not(a)
		}
	}
	if a.id > b.id {
		a, b = b, a
	}
	return mk("=", "", nil, SBool, nil, a, b)
}
func Neq(a, b *Term) *Term { return Not(Eq(a, b)) }

func cmp(op string, a, b *Term) *Term {
	if a.S != SInt || b.S != SInt {
		panic("cmp non-int: " + a.String() + " " + op + " " + b.String())
	}
	if a.IsConst() && b.IsConst() {
		c := a.Val.Cmp(b.Val)
		switch op {
		case "<":
			return Bool(c < 0)
		case "<=":
			return Bool(c <= 0)
		case ">":
			return Bool(c > 0)
		case ">=":
			return Bool(c >= 0)
		}
	}
	if a == b {
		return Bool(op == "<=" || op == ">=")
	}
	return mk(op, "", nil, SBool, nil, a, b)
}
func Lt(a, b *Term) *Term { return cmp("<", a, b) }
func Le(a, b *Term) *Term { return cmp("<=", a, b) }
func Gt(a, b *Term) *Term { return cmp("<", b, a) }
func Ge(a, b *Term) *Term { return cmp("<=", b, a) }

func Add(a, b *Term) *Term {
	if a.IsConst() && b.IsConst() {
		return NumB(new(big.Int).Add(a.Val, b.Val))
	}
	if a.IsConst() && a.Val.Sign() == 0 {
		return b
	}
	if b.IsConst() && b.Val.Sign() == 0 {
		return a
	}
	// (x + c1) + c2
	if b.IsConst() && a.Op == "+" && len(a.Args) == 2 && a.Args[1].IsConst() {
		return Add(a.Args[0], NumB(new(big.Int).Add(a.Args[1].Val, b.Val)))
	}
	if a.IsConst() {
		a, b = b, a
	}
	return mk("+", "", nil, SInt, nil, a, b)
}
func Sub(a, b *Term) *Term {
	if a.IsConst() && b.IsConst() {
		return NumB(new(big.Int).Sub(a.Val, b.Val))
	}
	if b.IsConst() {
		return Add(a, NumB(new(big.Int).Neg(b.Val)))
	}
	if a == b {
		return Num(0)
	}
	return mk("-", "", nil, SInt, nil, a, b)
}
func Neg(a *Term) *Term { return Sub(Num(0), a) }
func Mul(a, b *Term) *Term {
	if a.IsConst() && b.IsConst() {
		return NumB(new(big.Int).Mul(a.Val, b.Val))
	}
	if a.IsConst() {
		a, b = b, a
	}
	if b.IsConst() {
		if b.Val.Sign() == 0 {
			return Num(0)
		}
		if b.Val.Cmp(big.NewInt(1)) == 0 {
			return a
		}
	}
	return mk("*", "", nil, SInt, nil, a, b)
}

// Euclidean div/mod as in SMT-LIB (divisor constant >0 typical)
func Div(a, b *Term) *Term {
	if a.IsConst() && b.IsConst() && b.Val.Sign() != 0 {
		q, _ := new(big.Int).DivMod(a.Val, b.Val, new(big.Int))
		return NumB(q)
	}
	if b.IsConst() && b.Val.Cmp(big.NewInt(1)) == 0 {
		return a
	}
	return mk("div", "", nil, SInt, nil, a, b)
}
func Mod(a, b *Term) *Term {
	if a.IsConst() && b.IsConst() && b.Val.Sign() != 0 {
		_, m := new(big.Int).DivMod(a.Val, b.Val, new(big.Int))
		return NumB(m)
	}
	return mk("mod", "", nil, SInt, nil, a, b)
}

// Select with read-over-write simplification using a cheap syntactic disequality test.
func Select(arr, idx *Term) *Term {
	if !arr.S.IsArr() {
		panic("Select on non-array " + arr.String())
	}
	if idx.S != arr.S.Idx {
		panic(fmt.Sprintf("Select index sort %s vs %s", idx.S, arr.S.Idx))
	}
	for arr.Op == "store" {
		if arr.Args[1] == idx {
			return arr.Args[2]
		}
		if synDistinct(arr.Args[1], idx) {
			arr = arr.Args[0]
			continue
		}
		break
	}
	if arr.Op == "constarr" {
		return arr.Args[0]
	}
	return mk("select", "", nil, arr.S.Elem, nil, arr, idx)
}
func Store(arr, idx, v *Term) *Term {
	if !arr.S.IsArr() || idx.S != arr.S.Idx || v.S != arr.S.Elem {
		panic(fmt.Sprintf("Store sort mismatch: arr %s idx %s val %s", arr.S, idx.S, v.S))
	}
	if arr.Op == "store" && arr.Args[1] == idx {
		arr = arr.Args[0]
	}
	return mk("store", "", nil, arr.S, nil, arr, idx, v)
}
func ConstArr(s *Sort, v *Term) *Term {
	return mk("constarr", "", nil, s, nil, v)
}

// splitOff returns (base, offset) for terms of the form base + const.
func splitOff(t *Term) (*Term, *big.Int) {
	if t.IsConst() {
		return nil, t.Val
	}
	if t.Op == "+" && len(t.Args) == 2 && t.Args[1].IsConst() {
		return t.Args[0], t.Args[1].Val
	}
	return t, big.NewInt(0)
}

// nonNegSyms: symbols known to be >= 0 (references); negative constants are distinct from them.
var nonNegSyms = map[string]bool{}

func synDistinct(a, b *Term) bool {
	if a.S != SInt {
		return false
	}
	ba, oa := splitOff(a)
	bb, ob := splitOff(b)
	if ba == bb {
		return oa.Cmp(ob) != 0
	}
	if ba == nil && oa.Sign() < 0 && bb != nil && bb.Op == "sym" && nonNegSyms[bb.Name] && ob.Sign() >= 0 {
		return true
	}
	if bb == nil && ob.Sign() < 0 && ba != nil && ba.Op == "sym" && nonNegSyms[ba.Name] && oa.Sign() >= 0 {
		return true
	}
	return false
}

func Forall(vars []*Term, body *Term) *Term {
	if body.IsTrue() || body.IsFalse() {
		return body
	}
	vars, body = normalizeQuant(vars, body)
	return mk("forall", "", nil, SBool, vars, body)
}
func Exists(vars []*Term, body *Term) *Term {
	if body.IsTrue() || body.IsFalse() {
		return body
	}
	vars, body = normalizeQuant(vars, body)
	return mk("exists", "", nil, SBool, vars, body)
}

// SliceIdx is the position off+i of a slice element in its backing array. For symbolic indices it is kept as an
// application idx(off, i) (defined by an axiom added to every script that uses it), so that quantified facts about slice
// elements have patterns without arithmetic.
func SliceIdx(off, i *Term) *Term {
	if off.IsConst() && off.Val.Sign() == 0 {
		return i
	}
	// a re-sliced slice has offset base+delta: keep the root offset as the first argument and fold the delta into the
	// index, so that facts about the original slice match reads through the sub-slice
	if off.Op == "+" && len(off.Args) == 2 && !off.Args[0].IsConst() {
		return SliceIdx(off.Args[0], Add(off.Args[1], i))
	}
	if i.IsConst() {
		return Add(off, i)
	}
	return App("idx", SInt, off, i)
}

// ForallPat is Forall with explicit single-term E-matching patterns (no re-parameterisation).
func ForallPat(vars []*Term, body *Term, pats ...*Term) *Term {
	if body.IsTrue() || body.IsFalse() {
		return body
	}
	return mk("forall", "", nil, SBool, vars, append([]*Term{body}, pats...)...)
}

func occurs(t, v *Term) bool {
	seen := map[int]bool{}
	var rec func(t *Term) bool
	rec = func(t *Term) bool {
		if t == v {
			return true
		}
		if seen[t.id] {
			return false
		}
		seen[t.id] = true
		for _, a := range t.Args {
			if rec(a) {
				return true
			}
		}
		return false
	}
	return rec(t)
}

// normalizeQuant re-parameterises bound variables that occur as (+ T k) (slice offset + index) so that array reads are
// indexed by a plain bound variable: k := m - T. This keeps arithmetic out of E-matching patterns.
func normalizeQuant(vars []*Term, body *Term) ([]*Term, *Term) {
	vars = append([]*Term(nil), vars...)
	for vi, k := range vars {
		if k.S != SInt {
			continue
		}
		count := map[int]int{}
		terms := map[int]*Term{}
		bare := 0
		seen := map[int]bool{}
		var rec func(t *Term, inIndex bool)
		rec = func(t *Term, inIndex bool) {
			if t == k && inIndex {
				bare++
			}
			if seen[t.id] {
				return
			}
			seen[t.id] = true
			if t.Op == "+" && len(t.Args) == 2 {
				var other *Term
				if t.Args[0] == k {
					other = t.Args[1]
				} else if t.Args[1] == k {
					other = t.Args[0]
				}
				if other != nil && !other.IsConst() && !occurs(other, k) {
					count[t.id]++
					terms[t.id] = t
				}
			}
			for i, a := range t.Args {
				rec(a, (t.Op == "select" && i == 1) || (t.Op == "app"))
			}
		}
		rec(body, false)
		if len(count) != 1 || bare > 0 {
			continue
		}
		var plus *Term
		for id := range count {
			plus = terms[id]
		}
		other := plus.Args[0]
		if other == k {
			other = plus.Args[1]
		}
		m := BoundVar(strings.SplitN(k.Name, "!", 2)[0]+"_s", SInt)
		body = Subst(body, map[int]*Term{plus.id: m, k.id: Sub(m, other)})
		vars[vi] = m
	}
	return vars, body
}

func smtNum(v *big.Int) string {
	if v.Sign() < 0 {
		return "(- " + new(big.Int).Neg(v).String() + ")"
	}
	return v.String()
}

func quoteSym(s string) string {
	for _, c := range s {
		if !(c >= 'a' && c <= 'z' || c >= 'A' && c <= 'Z' || c >= '0' && c <= '9' || c == '_' || c == '!' || c == '.' || c == '$') {
			return "|" + s + "|"
		}
	}
	return s
}

func (t *Term) String() string {
	var sb strings.Builder
	t.write(&sb, nil)
	return sb.String()
}

// write prints the term; names maps term ids to let/define names for sharing.
func (t *Term) write(sb *strings.Builder, names map[int]string) {
	if names != nil {
		if n, ok := names[t.id]; ok {
			sb.WriteString(n)
			return
		}
	}
	t.writeBody(sb, names)
}

func (t *Term) writeBody(sb *strings.Builder, names map[int]string) {
	switch t.Op {
	case "const":
		sb.WriteString(smtNum(t.Val))
	case "true", "false":
		sb.WriteString(t.Op)
	case "sym", "bvar":
		sb.WriteString(quoteSym(t.Name))
	case "constarr":
		sb.WriteString("((as const " + t.S.String() + ") ")
		t.Args[0].write(sb, names)
		sb.WriteString(")")
	case "forall", "exists":
		sb.WriteString("(" + t.Op + " (")
		for _, b := range t.Bnd {
			sb.WriteString("(" + quoteSym(b.Name) + " " + b.S.String() + ")")
		}
		sb.WriteString(") ")
		if len(t.Args) > 1 {
			sb.WriteString("(! ")
			t.Args[0].write(sb, names)
			for _, p := range t.Args[1:] {
				sb.WriteString(" :pattern (")
				p.write(sb, names)
				sb.WriteString(")")
			}
			sb.WriteString(")")
		} else {
			t.Args[0].write(sb, names)
		}
		sb.WriteString(")")
	case "app":
		if len(t.Args) == 0 {
			sb.WriteString(quoteSym(t.Name))
			return
		}
		sb.WriteString("(" + quoteSym(t.Name))
		for _, a := range t.Args {
			sb.WriteByte(' ')
			a.write(sb, names)
		}
		sb.WriteString(")")
	default:
		sb.WriteString("(" + t.Op)
		for _, a := range t.Args {
			sb.WriteByte(' ')
			a.write(sb, names)
		}
		sb.WriteString(")")
	}
}

// hasBound reports whether t contains a bound variable occurrence (free inside t).
var hasBoundCache = map[int]bool{}

func hasBound(t *Term) bool {
	if v, ok := hasBoundCache[t.id]; ok {
		return v
	}
	r := false
	if t.Op == "bvar" {
		r = true
	} else {
		for _, a := range t.Args {
			if hasBound(a) {
				r = true
				break
			}
		}
	}
	hasBoundCache[t.id] = r
	return r
}

// Script builds an SMT-LIB script for a set of assertions, sharing subterms via define-fun.
func Script(asserts []*Term, logicHdr string, produceModels bool) string {
	// count references
	ref := map[int]int{}
	var order []*Term
	var visit func(t *Term)
	visit = func(t *Term) {
		ref[t.id]++
		if ref[t.id] > 1 {
			return
		}
		for _, a := range t.Args {
			visit(a)
		}
		order = append(order, t)
	}
	for _, a := range asserts {
		visit(a)
	}
	usedFns := map[string]bool{}
	for _, t := range order {
		if t.Op == "sym" || t.Op == "app" {
			usedFns[t.Name] = true
		}
	}
	var sb strings.Builder
	if produceModels {
		sb.WriteString("(set-option :produce-models true)\n")
	}
	sb.WriteString(logicHdr)
	sb.WriteString("(declare-sort Str 0)\n")
	for _, n := range fnOrder {
		if !usedFns[n] {
			continue
		}
		d := fnDecls[n]
		sb.WriteString("(declare-fun " + quoteSym(n) + " (")
		for i, a := range d.Args {
			if i > 0 {
				sb.WriteByte(' ')
			}
			sb.WriteString(a.String())
		}
		sb.WriteString(") " + d.Ret.String() + ")\n")
	}
	if usedFns["idx"] {
		sb.WriteString("(assert (forall ((o Int) (i Int)) (! (= (idx o i) (+ o i)) :pattern ((idx o i)))))\n")
	}
	names := map[int]string{}
	for _, t := range order {
		if ref[t.id] > 1 && len(t.Args) > 0 && !hasBound(t) {
			n := fmt.Sprintf("$t%d", t.id)
			sb.WriteString("(define-fun " + n + " () " + t.S.String() + " ")
			t.writeBody(&sb, names)
			sb.WriteString(")\n")
			names[t.id] = n
		}
	}
	for _, a := range asserts {
		sb.WriteString("(assert ")
		a.write(&sb, names)
		sb.WriteString(")\n")
	}
	sb.WriteString("(check-sat)\n")
	return sb.String()
}

// Subst replaces symbols/bvars by terms (by id).
func Subst(t *Term, m map[int]*Term) *Term {
	cache := map[int]*Term{}
	var rec func(t *Term) *Term
	rec = func(t *Term) *Term {
		if r, ok := m[t.id]; ok {
			return r
		}
		if len(t.Args) == 0 {
			return t
		}
		if r, ok := cache[t.id]; ok {
			return r
		}
		args := make([]*Term, len(t.Args))
		ch := false
		for i, a := range t.Args {
			args[i] = rec(a)
			if args[i] != a {
				ch = true
			}
		}
		r := t
		if ch {
			r = rebuild(t, args)
		}
		cache[t.id] = r
		return r
	}
	return rec(t)
}

func rebuild(t *Term, args []*Term) *Term {
	switch t.Op {
	case "and":
		return And(args...)
	case "or":
		return Or(args...)
	case "not":
		return Not(args[0])
	case "=>":
		return Implies(args[0], args[1])
	case "ite":
		return Ite(args[0], args[1], args[2])
	case "=":
		return Eq(args[0], args[1])
	case "<":
		return Lt(args[0], args[1])
	case "<=":
		return Le(args[0], args[1])
	case "+":
		return Add(args[0], args[1])
	case "-":
		return Sub(args[0], args[1])
	case "*":
		return Mul(args[0], args[1])
	case "div":
		return Div(args[0], args[1])
	case "mod":
		return Mod(args[0], args[1])
	case "select":
		return Select(args[0], args[1])
	case "store":
		return Store(args[0], args[1], args[2])
	}
	return mk(t.Op, t.Name, t.Val, t.S, t.Bnd, args...)
}

// FreeSyms returns the names of free symbols in the terms, sorted.
func FreeSyms(ts []*Term) []*Term {
	seen := map[int]bool{}
	var out []*Term
	var rec func(t *Term)
	rec = func(t *Term) {
		if seen[t.id] {
			return
		}
		seen[t.id] = true
		if t.Op == "sym" {
			out = append(out, t)
		}
		for _, a := range t.Args {
			rec(a)
		}
	}
	for _, t := range ts {
		rec(t)
	}
	sort.Slice(out, func(i, j int) bool { return out[i].Name < out[j].Name })
	return out
}

func termSize(t *Term) int {
	seen := map[int]bool{}
	var rec func(t *Term) int
	rec = func(t *Term) int {
		if seen[t.id] {
			return 0
		}
		seen[t.id] = true
		n := 1
		for _, a := range t.Args {
			n += rec(a)
		}
		return n
	}
	return rec(t)
}

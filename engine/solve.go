package main

// Discharging obligations with a portfolio of SMT solvers.

import (
	"bytes"
	"context"
	"fmt"
	"os"
	"os/exec"
	"path/filepath"
	"sort"
	"strings"
	"sync"
	"time"
)

type SolverCfg struct {
	Name string
	Cmd  func(file string, timeoutS int, seed int) []string
}

var solvers = []SolverCfg{
	{"z3-new", func(f string, t int, seed int) []string {
		return []string{"z3-new", fmt.Sprintf("-T:%d", t), fmt.Sprintf("smt.random_seed=%d", seed), fmt.Sprintf("sat.random_seed=%d", seed), "-smt2", f}
	}},
	{"cvc5", func(f string, t int, seed int) []string {
		return []string{"cvc5", fmt.Sprintf("--tlimit=%d", t*1000), fmt.Sprintf("--seed=%d", seed), "--produce-models", "--lang", "smt2", f}
	}},
	{"z3", func(f string, t int, seed int) []string {
		return []string{"z3", fmt.Sprintf("-T:%d", t), fmt.Sprintf("smt.random_seed=%d", seed), "-smt2", f}
	}},
}

// symbolsOf returns the set of symbol/function names occurring in t (cached by term id).
var symCache = map[int]map[string]bool{}

func symbolsOf(t *Term) map[string]bool {
	if s, ok := symCache[t.id]; ok {
		return s
	}
	s := map[string]bool{}
	seen := map[int]bool{}
	var rec func(t *Term)
	rec = func(t *Term) {
		if seen[t.id] {
			return
		}
		seen[t.id] = true
		if t.Op == "sym" || t.Op == "app" {
			s[t.Name] = true
		}
		for _, a := range t.Args {
			rec(a)
		}
	}
	rec(t)
	symCache[t.id] = s
	return s
}

// weak symbols do not propagate relevance (they occur almost everywhere)
func weakSym(n string) bool {
	return n == "gstr.len" || n == "dyn" || n == "pow2" || n == "bitlen" || n == "str!empty"
}

// relevantHyps selects the hypotheses transitively sharing symbols with the goal.
func relevantHyps(hyps []*Term, seeds []*Term) []*Term {
	rel := map[string]bool{}
	for _, s := range seeds {
		for n := range symbolsOf(s) {
			rel[n] = true
		}
	}
	used := make([]bool, len(hyps))
	for changed := true; changed; {
		changed = false
		for i, h := range hyps {
			if used[i] {
				continue
			}
			syms := symbolsOf(h)
			hit := len(syms) == 0
			for n := range syms {
				if rel[n] && !weakSym(n) {
					hit = true
					break
				}
			}
			if hit {
				used[i] = true
				changed = true
				for n := range syms {
					rel[n] = true
				}
			}
		}
	}
	var out []*Term
	for i, h := range hyps {
		if used[i] {
			out = append(out, h)
		}
	}
	return out
}

func (ob *Obligation) script() string {
	var asserts []*Term
	neg := Not(ob.Goal)
	seeds := []*Term{ob.Reach, neg}
	asserts = append(asserts, relevantHyps(ob.Hyps, seeds)...)
	asserts = append(asserts, ob.Reach, neg)
	s := Script(asserts, "(set-logic ALL)\n", true)
	// counterexample values
	if len(ob.Inputs) > 0 {
		used := map[string]bool{}
		for _, a := range asserts {
			for n := range symbolsOf(a) {
				used[n] = true
			}
		}
		var names []string
		for n := range ob.Inputs {
			names = append(names, n)
		}
		sort.Strings(names)
		var sb strings.Builder
		for _, n := range names {
			t := ob.Inputs[n]
			ok := true
			for sn := range symbolsOf(t) {
				if !used[sn] {
					ok = false
				}
			}
			if ok && !t.S.IsArr() {
				sb.WriteString("(echo \"@@" + n + "\")\n(get-value (" + t.String() + "))\n")
			}
		}
		s += sb.String()
	}
	return s
}

type solveOpts struct {
	TimeoutS int
	Seed     int
	Dir      string
	Workers  int
	KeepAll  bool
	CrossCheck bool // thorough tier: every unsat is re-asked to the other solvers and with another seed; a sat is a disagreement
}

func runSolver(ctx context.Context, sc SolverCfg, file string, timeoutS, seed int) (string, string) {
	args := sc.Cmd(file, timeoutS, seed)
	cctx, cancel := context.WithTimeout(ctx, time.Duration(timeoutS+2)*time.Second)
	defer cancel()
	cmd := exec.CommandContext(cctx, args[0], args[1:]...)
	var out bytes.Buffer
	cmd.Stdout = &out
	cmd.Stderr = &out
	cmd.Run()
	o := out.String()
	first := strings.TrimSpace(strings.SplitN(o, "\n", 2)[0])
	switch first {
	case "sat", "unsat", "unknown":
		return first, o
	}
	if strings.Contains(first, "timeout") || cctx.Err() != nil {
		return "timeout", o
	}
	return "error", o
}

// prepare builds the SMT script (sequential: the term tables are not goroutine safe).
func (ob *Obligation) prepare(opts solveOpts) {
	if ob.Goal.IsTrue() && !ob.Cover {
		ob.Result, ob.Solver = "unsat", "simplifier"
		return
	}
	if ob.Reach.IsFalse() {
		if ob.Cover {
			ob.Result, ob.Solver = "unsat", "simplifier"
		} else {
			ob.Result, ob.Solver = "unsat", "simplifier"
		}
		return
	}
	script := ob.script()
	ob.file = filepath.Join(opts.Dir, sanitize(ob.Name)+".smt2")
	ob.scriptLen = len(script)
	if err := os.WriteFile(ob.file, []byte(script), 0644); err != nil {
		ob.Result, ob.RawOut = "error", err.Error()
	}
}

func (ob *Obligation) solve(opts solveOpts) {
	if ob.Result != "" {
		return
	}
	t0 := time.Now()
	defer func() { ob.Ms = time.Since(t0).Milliseconds() }()
	fname := ob.file
	if ob.scriptLen > 4<<20 {
		ob.Result, ob.RawOut = "too-large", fmt.Sprintf("script %d bytes", ob.scriptLen)
		return
	}
	// stage 1: z3-new alone, short
	short := 3
	if opts.TimeoutS < short {
		short = opts.TimeoutS
	}
	res, out := runSolver(context.Background(), solvers[0], fname, short, opts.Seed)
	if res == "sat" || res == "unsat" {
		ob.finish(res, solvers[0].Name, out, fname, opts)
		return
	}
	// stage 2: race (reachability probes get a short budget: an unknown there is tolerated)
	if ob.Cover && opts.TimeoutS > 6 {
		opts.TimeoutS = 6
	}
	type ans struct{ res, out, name string }
	ctx, cancel := context.WithCancel(context.Background())
	defer cancel()
	ch := make(chan ans, len(solvers))
	for _, sc := range solvers {
		sc := sc
		go func() {
			r, o := runSolver(ctx, sc, fname, opts.TimeoutS, opts.Seed)
			ch <- ans{r, o, sc.Name}
		}()
	}
	var last ans
	for range solvers {
		a := <-ch
		if a.res == "sat" || a.res == "unsat" {
			ob.finish(a.res, a.name, a.out, fname, opts)
			return
		}
		if last.res == "" || a.res == "unknown" {
			last = a
		}
	}
	ob.finish(last.res, last.name, last.out, fname, opts)
}

func (ob *Obligation) finish(res, solver, out, fname string, opts solveOpts) {
	if opts.CrossCheck && res == "unsat" && !ob.Cover {
		// second opinions: the other solvers (15 s each) and the same solver with another seed. unknown/timeout is no opinion.
		agree := []string{solver}
		for _, sc := range solvers {
			seed := opts.Seed
			if sc.Name == solver {
				seed = opts.Seed + 7919
			}
			r, o := runSolver(context.Background(), sc, fname, 15, seed)
			if r == "sat" {
				ob.Result, ob.Solver, ob.RawOut = "disagreement", solver+" unsat / "+sc.Name+" sat", o
				if len(ob.RawOut) > 4000 {
					ob.RawOut = ob.RawOut[:4000]
				}
				return
			}
			if r == "unsat" {
				agree = append(agree, sc.Name)
			}
		}
		ob.CrossChecked = agree
	}
	ob.Result, ob.Solver, ob.RawOut = res, solver, out
	if res == "sat" {
		ob.Model = parseValues(out)
	}
	ok := (res == "unsat" && !ob.Cover) || (res == "sat" && ob.Cover)
	if ok && !opts.KeepAll {
		os.Remove(fname)
	}
	if len(ob.RawOut) > 4000 {
		ob.RawOut = ob.RawOut[:4000]
	}
}

func parseValues(out string) map[string]string {
	m := map[string]string{}
	lines := strings.Split(out, "\n")
	for i := 0; i < len(lines); i++ {
		l := strings.TrimSpace(lines[i])
		l = strings.Trim(l, "\"")
		if strings.HasPrefix(l, "@@") && i+1 < len(lines) {
			name := strings.TrimPrefix(l, "@@")
			v := strings.TrimSpace(lines[i+1])
			// ((term value))
			v = strings.TrimPrefix(v, "((")
			v = strings.TrimSuffix(v, "))")
			// split term and value: value is last token or parenthesised (- n)
			if j := strings.LastIndex(v, "(- "); j >= 0 && strings.HasSuffix(v, ")") {
				m[name] = "-" + strings.TrimSuffix(v[j+3:], ")")
			} else if j := strings.LastIndex(v, " "); j >= 0 {
				m[name] = v[j+1:]
			}
		}
	}
	return m
}

func sanitize(s string) string {
	r := strings.NewReplacer("/", "_", "#", "-", "*", "", "(", "", ")", "", " ", "", "@", "_at_", "~", "-", "$", "_")
	return r.Replace(s)
}

func solveAll(obs []*Obligation, opts solveOpts) {
	os.MkdirAll(opts.Dir, 0755)
	for _, ob := range obs {
		ob.prepare(opts)
	}
	var wg sync.WaitGroup
	sem := make(chan struct{}, opts.Workers)
	for _, ob := range obs {
		ob := ob
		wg.Add(1)
		sem <- struct{}{}
		go func() {
			defer wg.Done()
			defer func() { <-sem }()
			ob.solve(opts)
		}()
	}
	wg.Wait()
}

package main

// Evaluation of specification expressions over symbolic states.

import (
	"fmt"
	"go/constant"
	"go/types"
	"strings"

	"golang.org/x/tools/go/ssa"
)

type Ev struct {
	fr     *Frame
	c      *Ctx
	st     *State
	old    *State
	env    map[string]*Val
	pkg    *types.Package
	locals bool // resolve names of local cells of fr.Fn
	mutate bool // lemma `let` steps: calls to Go functions keep their effects (allocations) in ev.st
	freshBase *Term
}

var mathT = types.Typ[types.UntypedInt]

func mathVal(x *Term) *Val { return &Val{K: KMath, T: mathT, X: x} }

type specError struct{ msg string }

func specFail(f string, a ...interface{}) { panic(specError{fmt.Sprintf(f, a...)}) }

func (fr *Frame) pkgOf() *types.Package {
	if fr.Fn == nil {
		return fr.lemmaPkg
	}
	fn := fr.Fn
	for fn.Parent() != nil {
		fn = fn.Parent()
	}
	if fn.Pkg != nil {
		return fn.Pkg.Pkg
	}
	if fn.Object() != nil {
		return fn.Object().Pkg()
	}
	return nil
}

// evaluation in the frame's own function (loop invariants, own pre/postconditions)
func (fr *Frame) evalBool(e *SExpr, st, old *State, env map[string]*Val) *Term {
	ev := &Ev{fr: fr, c: fr.C, st: st, old: old, env: env, pkg: fr.pkgOf(), locals: true}
	return ev.boolTerm(e)
}
func (fr *Frame) evalInt(e *SExpr, st, old *State, env map[string]*Val) *Term {
	ev := &Ev{fr: fr, c: fr.C, st: st, old: old, env: env, pkg: fr.pkgOf(), locals: true}
	return ev.intTerm(e)
}

// evaluation of a callee's contract at a call site: names resolve in env and in the callee's package
func (fr *Frame) evalBoolEnv(e *SExpr, st, old *State, env map[string]*Val) *Term {
	ev := &Ev{fr: fr, c: fr.C, st: st, old: old, env: env, pkg: envPkg(env, fr)}
	return ev.boolTerm(e)
}
func (fr *Frame) evalBoolEnvFresh(e *SExpr, st, old *State, env map[string]*Val, base *Term) *Term {
	ev := &Ev{fr: fr, c: fr.C, st: st, old: old, env: env, pkg: envPkg(env, fr), freshBase: base}
	return ev.boolTerm(e)
}
func (fr *Frame) evalEnv(e *SExpr, st, old *State, env map[string]*Val) *Val {
	ev := &Ev{fr: fr, c: fr.C, st: st, old: old, env: env, pkg: envPkg(env, fr)}
	return ev.eval(e)
}

var envPkgs = map[*map[string]*Val]*types.Package{}

func envPkg(env map[string]*Val, fr *Frame) *types.Package {
	if p, ok := env["$pkg"]; ok && p != nil {
		return p.Pkg
	}
	return fr.pkgOf()
}

func (ev *Ev) boolTerm(e *SExpr) *Term {
	v := ev.eval(e)
	if v.K != KBool {
		specFail("expected boolean in spec: %s", e)
	}
	return v.X
}
func (ev *Ev) intTerm(e *SExpr) *Term {
	v := ev.eval(e)
	if v.K != KInt && v.K != KMath {
		specFail("expected integer in spec: %s", e)
	}
	return v.X
}

func isNilLit(e *SExpr) bool { return e.Kind == "id" && e.Name == "nil" }

func (ev *Ev) eval(e *SExpr) *Val {
	switch e.Kind {
	case "num":
		return mathVal(NumB(e.Num))
	case "str":
		return &Val{K: KStr, T: types.Typ[types.String], X: ev.c.strLit(e.Name)}
	case "id":
		return ev.ident(e.Name)
	case "un":
		a := ev.eval(e.Args[0])
		switch e.Op {
		case "!":
			return boolVal(Not(a.X))
		case "-":
			return mathVal(Neg(a.X))
		}
	case "bin":
		return ev.binary(e)
	case "sel":
		return ev.selector(e)
	case "idx":
		return ev.index(e)
	case "call":
		return ev.call(e)
	case "quant":
		return ev.quant(e)
	}
	specFail("cannot evaluate %s", e)
	return nil
}

func (ev *Ev) ident(name string) *Val {
	switch name {
	case "true":
		return boolVal(TTrue)
	case "false":
		return boolVal(TFalse)
	case "nil":
		return &Val{K: KPtr, T: types.Typ[types.UntypedNil], X: Num(0)}
	}
	if ev.env != nil {
		if v, ok := ev.env[name]; ok && v != nil && name != "$pkg" {
			return v
		}
	}
	if ev.locals && ev.fr != nil && ev.fr.Fn != nil {
		if v, ok := ev.fr.envTop[name]; ok && !ev.fr.midEval {
			return v
		}
		if v, ok := ev.fr.Params[name]; ok && !ev.fr.midEval {
			return v
		}
		// (inside the body - loop invariants, at-call assertions - a parameter name denotes the CURRENT value of the
		// variable; in requires/ensures it denotes the entry value)
		// local cells by source name (latest declared wins when shadowed: prefer the one with a value in the state);
		// "x#n" selects the n-th variable named x in source order
		var found *Val
		want := 0
		if i := strings.Index(name, "#"); i > 0 {
			fmt.Sscanf(name[i+1:], "%d", &want)
			name = name[:i]
		}
		seen := 0
		cands := ev.localCells(name)
		for _, a := range cands {
			seen++
			if want != 0 && seen != want {
				continue
			}
			if !a.Heap {
				if v, ok := ev.st.Cells[a]; ok {
					found = v
				}
			} else if p, ok := ev.fr.Regs[a]; ok {
				found = ev.fr.load(ev.st, p, a.Type().(*types.Pointer).Elem())
			}
		}
		if found != nil {
			return found
		}
		if seen > 0 && want == 0 {
			// a local variable that has not been declared yet on this path: its zero value
			_, isParam := ev.fr.Params[name]
			if _, aliased := ev.fr.ParamAlias[name]; aliased {
				isParam = true
			}
			if !isParam {
				return zeroVal(cands[0].Type().(*types.Pointer).Elem())
			}
		}
		if v, ok := ev.fr.envTop[name]; ok {
			return v
		}
		if v, ok := ev.fr.Params[name]; ok {
			return v
		}
		// free variables of closures
		if ev.fr.Closure != nil {
			for i, fv := range ev.fr.Fn.FreeVars {
				if fv.Name() == name {
					return ev.fr.load(ev.st, ev.fr.Closure.Binds[i], fv.Type().(*types.Pointer).Elem())
				}
			}
			if i := renamedFreeVar(ev.fr.Fn, name); i >= 0 {
				fv := ev.fr.Fn.FreeVars[i]
				ev.c.note("%s: captured variable %q of the contract is resolved to the one now named %q (same type, same capture position)", ev.fr.Fn.String(), name, fv.Name())
				return ev.fr.load(ev.st, ev.fr.Closure.Binds[i], fv.Type().(*types.Pointer).Elem())
			}
		}
	}
	// package scope
	if ev.pkg != nil {
		if obj := ev.pkg.Scope().Lookup(name); obj != nil {
			return ev.objVal(obj)
		}
	}
	specFail("unknown identifier %q in spec", name)
	return nil
}

func (ev *Ev) objVal(obj types.Object) *Val {
	switch o := obj.(type) {
	case *types.Const:
		return ev.constObj(o)
	case *types.Var:
		sp := ev.c.P.SSAPkg[o.Pkg().Path()]
		if sp != nil {
			if g, ok := sp.Members[o.Name()].(*ssa.Global); ok {
				p := ev.c.globalPtr(g)
				return ev.fr.load(ev.st, p, o.Type())
			}
		}
	case *types.Func:
		return &Val{K: KFunc, T: o.Type(), X: Num(0), Fn: ev.c.P.SSA.FuncValue(o)}
	case *types.PkgName:
	}
	specFail("cannot use %s in spec", obj)
	return nil
}

func (ev *Ev) constObj(o *types.Const) *Val {
	switch o.Val().Kind() {
	case constant.Int:
		b, _ := new(bigInt).SetString(o.Val().ExactString(), 10)
		if kindOf(o.Type()) == KInt {
			return &Val{K: KInt, T: o.Type(), X: NumB(b)}
		}
		return mathVal(NumB(b))
	case constant.Bool:
		return boolVal(Bool(constant.BoolVal(o.Val())))
	case constant.String:
		return &Val{K: KStr, T: o.Type(), X: ev.c.strLit(constant.StringVal(o.Val()))}
	case constant.Float:
		if i, ok := constant.Int64Val(constant.ToInt(o.Val())); ok {
			return mathVal(Num(i))
		}
	}
	specFail("unsupported constant %s", o)
	return nil
}

func (ev *Ev) binary(e *SExpr) *Val {
	switch e.Op {
	case "&&":
		return boolVal(And(ev.boolTerm(e.Args[0]), ev.boolTerm(e.Args[1])))
	case "||":
		return boolVal(Or(ev.boolTerm(e.Args[0]), ev.boolTerm(e.Args[1])))
	case "==>":
		return boolVal(Implies(ev.boolTerm(e.Args[0]), ev.boolTerm(e.Args[1])))
	case "<==>":
		return boolVal(Iff(ev.boolTerm(e.Args[0]), ev.boolTerm(e.Args[1])))
	case "==", "!=":
		var t *Term
		if isNilLit(e.Args[1]) {
			t = ev.isNil(ev.eval(e.Args[0]))
		} else if isNilLit(e.Args[0]) {
			t = ev.isNil(ev.eval(e.Args[1]))
		} else {
			a, b := ev.eval(e.Args[0]), ev.eval(e.Args[1])
			t = ev.eqSpec(a, b)
		}
		if e.Op == "!=" {
			t = Not(t)
		}
		return boolVal(t)
	}
	a, b := ev.eval(e.Args[0]), ev.eval(e.Args[1])
	if a.K == KStr && b.K == KStr {
		switch e.Op {
		case "<":
			return boolVal(ev.c.strLt(a.X, b.X))
		case ">":
			return boolVal(ev.c.strLt(b.X, a.X))
		case "<=":
			return boolVal(Not(ev.c.strLt(b.X, a.X)))
		case ">=":
			return boolVal(Not(ev.c.strLt(a.X, b.X)))
		}
	}
	if (a.K != KInt && a.K != KMath) || (b.K != KInt && b.K != KMath) {
		specFail("arithmetic on non-integers in %s", e)
	}
	x, y := a.X, b.X
	switch e.Op {
	case "<":
		return boolVal(Lt(x, y))
	case "<=":
		return boolVal(Le(x, y))
	case ">":
		return boolVal(Gt(x, y))
	case ">=":
		return boolVal(Ge(x, y))
	case "+":
		return mathVal(Add(x, y))
	case "-":
		return mathVal(Sub(x, y))
	case "*":
		return mathVal(Mul(x, y))
	case "/":
		return mathVal(Div(x, y))
	case "%":
		return mathVal(Mod(x, y))
	case "<<":
		if y.IsConst() {
			return mathVal(Mul(x, Pow2(uint(y.Val.Int64()))))
		}
	case ">>":
		if y.IsConst() {
			return mathVal(Div(x, Pow2(uint(y.Val.Int64()))))
		}
	}
	specFail("unsupported operator %s", e.Op)
	return nil
}

func (ev *Ev) isNil(v *Val) *Term {
	switch v.K {
	case KPtr, KIface, KMap, KFunc, KSlice, KOpaque:
		if v.Cell != nil {
			return TFalse
		}
		return Eq(v.X, Num(0))
	}
	specFail("comparison of non-reference with nil")
	return nil
}

func (ev *Ev) eqSpec(a, b *Val) *Term {
	if (a.K == KInt || a.K == KMath) && (b.K == KInt || b.K == KMath) {
		return Eq(a.X, b.X)
	}
	if a.K == KIface && b.K != KIface {
		b = ev.fr.makeIface(nil, b, b.T, a.T)
	} else if b.K == KIface && a.K != KIface {
		a = ev.fr.makeIface(nil, a, a.T, b.T)
	}
	if a.K != b.K {
		// a Go byte array compared with a specification-level array value (result of a spec function, a model field):
		// both sides as little-endian integers
		if a.K == KArr && b.K == KMath && b.X.S == SInt {
			return Eq(arrAsInt(a), b.X)
		}
		if b.K == KArr && a.K == KMath && a.X.S == SInt {
			return Eq(a.X, arrAsInt(b))
		}
		if a.X != nil && b.X != nil && a.X.S == b.X.S && (a.K == KArr || a.K == KMath) && (b.K == KArr || b.K == KMath) {
			return eqArr(a, b)
		}
		specFail("== on different kinds (%v vs %v)", a.T, b.T)
	}
	return eqVal(a, b)
}

func (ev *Ev) selector(e *SExpr) *Val {
	// qualified identifier pkg.Name
	if e.Args[0].Kind == "id" {
		if _, bound := ev.lookupLocal(e.Args[0].Name); !bound {
			if p := ev.importedPkg(e.Args[0].Name); p != nil {
				obj := p.Scope().Lookup(e.Name)
				if obj == nil {
					specFail("no %s in package %s", e.Name, p.Path())
				}
				return ev.objVal(obj)
			}
		}
	}
	base := ev.eval(e.Args[0])
	return ev.fieldOf(base, e.Name, e)
}

func (ev *Ev) lookupLocal(name string) (*Val, bool) {
	defer func() { recover() }()
	if ev.env != nil {
		if v, ok := ev.env[name]; ok {
			return v, true
		}
	}
	if ev.locals && ev.fr != nil && ev.fr.Fn != nil {
		if v, ok := ev.fr.Params[name]; ok {
			return v, true
		}
		for _, b := range ev.fr.Fn.Blocks {
			for _, ins := range b.Instrs {
				if a, ok := ins.(*ssa.Alloc); ok && a.Comment == name {
					return nil, true
				}
			}
		}
		if len(ev.localCells(name)) > 0 {
			return nil, true
		}
		if ev.fr.Closure != nil && renamedFreeVar(ev.fr.Fn, name) >= 0 {
			return nil, true
		}
	}
	return nil, false
}

// localCells: the stack/heap cells of the function that the contract's name denotes. A parameter that the contract header
// renames positionally is looked up under its source name; a name the function no longer declares is placed by the
// declaration positions it had in the unchanged tree (localtab.go).
func (ev *Ev) localCells(name string) []*ssa.Alloc {
	src := name
	if a, ok := ev.fr.ParamAlias[name]; ok {
		src = a
	}
	var cands []*ssa.Alloc
	for _, a := range fnAllocs(ev.fr.Fn) {
		if a.Comment == src {
			cands = append(cands, a)
		}
	}
	if len(cands) == 0 && src == name && !ev.knownElsewhere(name) {
		cands = renamedLocals(ev.fr.Fn, name)
		if len(cands) > 0 {
			ev.c.note("%s: local %q of the contract is resolved to the variable now named %q (same type, same declaration position)", ev.fr.Fn.String(), name, cands[0].Comment)
		}
	}
	return cands
}

// knownElsewhere: the name denotes a parameter, an environment binding, a closure variable or a package-level object, so it
// is not a candidate for the renamed-local fallback.
func (ev *Ev) knownElsewhere(name string) bool {
	if ev.fr == nil {
		return true
	}
	if _, ok := ev.fr.envTop[name]; ok {
		return true
	}
	if _, ok := ev.fr.Params[name]; ok {
		return true
	}
	if ev.env != nil {
		if _, ok := ev.env[name]; ok {
			return true
		}
	}
	if ev.fr.Fn != nil {
		for _, fv := range ev.fr.Fn.FreeVars {
			if fv.Name() == name {
				return true
			}
		}
	}
	if ev.pkg != nil && ev.pkg.Scope().Lookup(name) != nil && !tableKnows(ev.fr.Fn, name) {
		return true // (a local of the unchanged tree shadows a package-level object of the same name)
	}
	return false
}

func (ev *Ev) importedPkg(name string) *types.Package {
	if ev.pkg == nil {
		return nil
	}
	for _, imp := range ev.pkg.Imports() {
		if imp.Name() == name {
			return imp
		}
	}
	// any loaded module package with that name (contracts may mention packages the code does not import)
	var found *types.Package
	for path, sp := range ev.c.P.SSAPkg {
		if inModule(path) && sp.Pkg.Name() == name {
			if found != nil && found != sp.Pkg {
				return nil // ambiguous
			}
			found = sp.Pkg
		}
	}
	return found
}

func (ev *Ev) fieldOf(base *Val, name string, e *SExpr) *Val {
	// slice pseudo-fields
	if base.K == KSlice {
		switch name {
		case "arr":
			return mathVal(base.X)
		case "off":
			return mathVal(base.Off)
		}
	}
	if mf := ev.c.modelField(base.T, name); mf != nil {
		return ev.c.readModel(ev.st, mf, base)
	}
	switch base.K {
	case KTuple:
		var i int
		if _, err := fmt.Sscanf(name, "%d", &i); err == nil && i < len(base.Fs) {
			return base.Fs[i]
		}
	case KStruct:
		st := under(base.T).(*types.Struct)
		for i := 0; i < st.NumFields(); i++ {
			if st.Field(i).Name() == name {
				return base.Fs[i]
			}
		}
		// promoted through embedded fields
		for i := 0; i < st.NumFields(); i++ {
			if st.Field(i).Embedded() {
				if v := ev.tryField(base.Fs[i], name); v != nil {
					return v
				}
			}
		}
	case KPtr:
		pt, ok := under(base.T).(*types.Pointer)
		if !ok {
			break
		}
		st, ok := under(pt.Elem()).(*types.Struct)
		if !ok {
			break
		}
		for i := 0; i < st.NumFields(); i++ {
			if st.Field(i).Name() == name {
				np := *base
				if base.Cell != nil {
					np.CPath = append(append([]int(nil), base.CPath...), i)
				} else {
					np.Path = base.Path + "." + name
				}
				np.T = types.NewPointer(st.Field(i).Type())
				return ev.fr.load(ev.st, &np, st.Field(i).Type())
			}
		}
		for i := 0; i < st.NumFields(); i++ {
			if st.Field(i).Embedded() {
				np := *base
				np.Path = base.Path + "." + st.Field(i).Name()
				np.T = types.NewPointer(st.Field(i).Type())
				var inner *Val
				if _, isPtr := under(st.Field(i).Type()).(*types.Pointer); isPtr {
					inner = ev.fr.load(ev.st, &np, st.Field(i).Type())
				} else {
					inner = &np
				}
				if v := ev.tryField(inner, name); v != nil {
					return v
				}
			}
		}
	}
	specFail("no field %s on %v in %s", name, base.T, e)
	return nil
}

func (ev *Ev) tryField(base *Val, name string) (v *Val) {
	defer func() {
		if r := recover(); r != nil {
			if _, ok := r.(specError); ok {
				v = nil
				return
			}
			panic(r)
		}
	}()
	return ev.fieldOf(base, name, &SExpr{Kind: "id", Name: name})
}

func (ev *Ev) index(e *SExpr) *Val {
	base := ev.eval(e.Args[0])
	switch base.K {
	case KArr:
		i := ev.intTerm(e.Args[1])
		et := types.Type(types.Typ[types.Int])
		if a, ok := under(base.T).(*types.Array); ok {
			et = a.Elem()
		}
		x := Select(base.X, i)
		if base.X.S.Elem == SBool {
			return boolVal(x)
		}
		if base.X.S.Elem.IsArr() {
			return &Val{K: KArr, T: mathT, X: x}
		}
		if base.X.S.Elem == SStr {
			return &Val{K: KStr, T: types.Typ[types.String], X: x}
		}
		if _, isArr := under(base.T).(*types.Array); isArr {
			elemRangeFact(x, et)
		}
		return &Val{K: kindOf(et), T: et, X: x}
	case KSlice:
		i := ev.intTerm(e.Args[1])
		et := under(base.T).(*types.Slice).Elem()
		p := &Val{K: KPtr, T: types.NewPointer(et), X: base.X, Root: "S:" + tstr(et), Idx: SliceIdx(base.Off, i)}
		return ev.fr.load(ev.st, p, et)
	case KMap:
		k := ev.eval(e.Args[1])
		t := base.T
		ks := mapKeySort(t)
		root := "M:" + tstr(t)
		kt := ev.fr.mapKeyTerm(k)
		return ev.fr.mapLoadVal(ev.st, root, ks, base.X, kt, under(t).(*types.Map).Elem(), "")
	case KStr:
		i := ev.intTerm(e.Args[1])
		return mathVal(App("gstr.at", SInt, base.X, i))
	case KMath:
		// model map: base.X is an array term
		if base.X.S.IsArr() {
			k := ev.eval(e.Args[1])
			kt := k.X
			if k.K == KArr && base.X.S.Idx == SInt {
				kt = arrAsInt(k)
			}
			x := Select(base.X, kt)
			return termVal(x)
		}
	}
	specFail("cannot index %v in %s", base.T, e)
	return nil
}

func termVal(x *Term) *Val {
	switch {
	case x.S == SBool:
		return boolVal(x)
	case x.S == SStr:
		return &Val{K: KStr, T: types.Typ[types.String], X: x}
	case x.S.IsArr():
		return &Val{K: KMath, T: mathT, X: x}
	}
	return mathVal(x)
}

func (ev *Ev) quant(e *SExpr) *Val {
	env := map[string]*Val{}
	for k, v := range ev.env {
		env[k] = v
	}
	var bvs []*Term
	var guards []*Term
	for _, v := range e.Vars {
		switch v.Type {
		case "int":
			b := BoundVar(v.Name, SInt)
			bvs = append(bvs, b)
			env[v.Name] = mathVal(b)
		case "bool":
			b := BoundVar(v.Name, SBool)
			bvs = append(bvs, b)
			env[v.Name] = boolVal(b)
		case "arr":
			b := BoundVar(v.Name, SInt)
			bvs = append(bvs, b)
			env[v.Name] = mathVal(b)
		default:
			t := ev.c.resolveType(v.Type, ev.pkg)
			if t == nil {
				specFail("unknown type %s in quantifier", v.Type)
			}
			switch kindOf(t) {
			case KInt:
				b := BoundVar(v.Name, SInt)
				bvs = append(bvs, b)
				lo, hi, _ := intRange(t)
				guards = append(guards, Le(lo, b), Le(b, hi))
				env[v.Name] = &Val{K: KInt, T: t, X: b}
			case KPtr:
				b := BoundVar(v.Name, SInt)
				bvs = append(bvs, b)
				guards = append(guards, Lt(b, ev.st.Alloc)) // allocated objects only
				env[v.Name] = mkPtr(t, b)
			case KArr:
				b := BoundVar(v.Name, sortOf(t))
				bvs = append(bvs, b)
				env[v.Name] = &Val{K: KArr, T: t, X: b}
			case KIface, KMap:
				b := BoundVar(v.Name, SInt)
				bvs = append(bvs, b)
				env[v.Name] = &Val{K: kindOf(t), T: t, X: b}
			case KStr:
				b := BoundVar(v.Name, SStr)
				bvs = append(bvs, b)
				env[v.Name] = &Val{K: KStr, T: t, X: b}
			default:
				specFail("unsupported quantified type %s", v.Type)
			}
		}
	}
	sub := *ev
	sub.env = env
	body := sub.boolTerm(e.Args[0])
	if e.Op == "forall" {
		return boolVal(Forall(bvs, Implies(And(guards...), body)))
	}
	return boolVal(Exists(bvs, And(And(guards...), body)))
}

// resolveType resolves "T", "*T", "pkg.T", "[]T", "[N]T" in the scope of pkg.
func (c *Ctx) resolveType(s string, pkg *types.Package) types.Type {
	if strings.HasPrefix(s, "*") {
		t := c.resolveType(s[1:], pkg)
		if t == nil {
			return nil
		}
		return types.NewPointer(t)
	}
	if strings.HasPrefix(s, "[]") {
		t := c.resolveType(s[2:], pkg)
		if t == nil {
			return nil
		}
		return types.NewSlice(t)
	}
	if strings.HasPrefix(s, "[") {
		j := strings.Index(s, "]")
		var n int64
		fmt.Sscanf(s[1:j], "%d", &n)
		t := c.resolveType(s[j+1:], pkg)
		if t == nil {
			return nil
		}
		return types.NewArray(t, n)
	}
	if i := strings.Index(s, "."); i >= 0 {
		pn, tn := s[:i], s[i+1:]
		ev := &Ev{c: c, pkg: pkg}
		p := ev.importedPkg(pn)
		if p == nil {
			if pn == "big" {
				if sp := c.P.SSAPkg["math/big"]; sp != nil {
					p = sp.Pkg
				}
			}
			if p == nil {
				return nil
			}
		}
		if o := p.Scope().Lookup(tn); o != nil {
			return o.Type()
		}
		return nil
	}
	if o := types.Universe.Lookup(s); o != nil {
		if tn, ok := o.(*types.TypeName); ok {
			return tn.Type()
		}
	}
	if pkg != nil {
		if o := pkg.Scope().Lookup(s); o != nil {
			if tn, ok := o.(*types.TypeName); ok {
				return tn.Type()
			}
		}
	}
	return nil
}

// ---------------------------------------------------------------------------------------------
// calls in specs

func (ev *Ev) call(e *SExpr) *Val {
	fn := e.Args[0]
	args := e.Args[1:]
	name := ""
	if fn.Kind == "id" {
		name = fn.Name
	}
	// package-qualified spec function: pkg.specfn(...)
	if fn.Kind == "sel" && fn.Args[0].Kind == "id" {
		if _, ok := ev.c.S.SpecFns[fn.Name]; ok {
			if _, bound := ev.lookupLocal(fn.Args[0].Name); !bound {
				name = fn.Name
			}
		}
	}
	switch name {
	case "old":
		sub := *ev
		sub.st = ev.old
		return sub.eval(args[0])
	case "len":
		v := ev.eval(args[0])
		switch v.K {
		case KSlice:
			return mathVal(v.Len)
		case KStr:
			l := App("gstr.len", SInt, v.X)
			ev.c.addFact(Le(Num(0), l))
			return mathVal(l)
		case KArr:
			return mathVal(Num(under(v.T).(*types.Array).Len()))
		case KMap:
			ln := ev.st.heapGet("M:"+tstr(v.T)+"#len", SArr(SInt, SInt))
			return mathVal(Ite(Eq(v.X, Num(0)), Num(0), Select(ln, v.X)))
		}
		specFail("len of %v", v.T)
	case "cap":
		v := ev.eval(args[0])
		return mathVal(v.Cap)
	case "val":
		v := ev.eval(args[0])
		return mathVal(bigval(ev.st, v.X))
	case "lastpacked":
		// lastpacked(): the byte string the last ABI Pack* call on this path produced (ghost set by the library model)
		if g, ok := ev.st.Ghost["lastpacked"]; ok {
			return mathVal(g)
		}
		return mathVal(Fresh("lastpacked!none", SInt))
	case "calls":
		// calls("Name"): number of calls to a callee of that name executed so far on this path of the function under contract
		if args[0].Kind != "str" {
			specFail("calls(\"Name\")")
		}
		if g, ok := ev.st.Ghost["calls:"+args[0].Name]; ok {
			return mathVal(g)
		}
		return mathVal(Num(0))
	case "strbytes":
		// strbytes(s): the bytes of a Go string as an abstract byte string (what []byte(s) holds)
		v := ev.eval(args[0])
		if v.K != KStr {
			specFail("strbytes(s): s must be a string")
		}
		ln := App("gstr.len", SInt, v.X)
		ev.c.addFact(Le(Num(0), ln))
		return mathVal(ev.c.bytesVal(App("gstr.bytes", SArr(SInt, SInt), v.X), Num(0), ln))
	case "sorted":
		// sorted(s): exactly the window s of its backing array is the one sort.Sort / sort.Stable last sorted (ghost)
		v := ev.eval(args[0])
		sl, isS := under(v.T).(*types.Slice)
		if v.K != KSlice || !isS {
			specFail("sorted(s): s must be a slice")
		}
		root := "S:" + tstr(sl.Elem())
		so := ev.st.heapGet(root+"#sortedOff", SArr(SInt, SInt))
		sn := ev.st.heapGet(root+"#sortedLen", SArr(SInt, SInt))
		return boolVal(And(Eq(Select(so, v.X), v.Off), Eq(Select(sn, v.X), v.Len)))
	case "visited":
		// visited(m, k): the current range loop over the map m has already produced key k (ghost, see exec.go *ssa.Range)
		m := ev.eval(args[0])
		if m.K != KMap {
			specFail("visited(m, k): m must be a map")
		}
		k := ev.eval(args[1])
		ks := mapKeySort(m.T)
		kt := ev.fr.mapKeyTerm(k)
		vis := ev.st.heapGet("M:"+tstr(m.T)+"#visited", SArr(SInt, SArr(ks, SBool)))
		return boolVal(Select(Select(vis, m.X), kt))
	case "fresh":
		// allocated during the call (at a call site: between the call's pre- and post-state; in the function's own
		// postcondition: since function entry)
		v := ev.eval(args[0])
		base := ev.fr.Entry.Alloc
		if ev.freshBase != nil {
			base = ev.freshBase
		}
		return boolVal(And(Le(base, v.X), Lt(v.X, ev.st.Alloc)))
	case "store":
		m := ev.eval(args[0])
		k := ev.eval(args[1])
		v := ev.eval(args[2])
		if m.X == nil || !m.X.S.IsArr() {
			specFail("store(m, k, v): m must be a model map")
		}
		kt := k.X
		if k.K == KArr && m.X.S.Idx == SInt {
			kt = arrAsInt(k)
		}
		vt := v.X
		if v.K == KArr && m.X.S.Elem == SInt {
			vt = arrAsInt(v)
		}
		return termVal(Store(m.X, kt, vt))
	case "allocated":
		v := ev.eval(args[0])
		return boolVal(Lt(v.X, ev.st.Alloc))
	case "pow2":
		n := ev.intTerm(args[0])
		if n.IsConst() {
			return mathVal(Pow2(uint(n.Val.Int64())))
		}
		return mathVal(ev.c.pow2Term(n))
	case "min", "max":
		a, b := ev.intTerm(args[0]), ev.intTerm(args[1])
		if name == "min" {
			return mathVal(Ite(Le(a, b), a, b))
		}
		return mathVal(Ite(Le(a, b), b, a))
	case "abs":
		return mathVal(absT(ev.intTerm(args[0])))
	case "ite":
		c := ev.boolTerm(args[0])
		a, b := ev.eval(args[1]), ev.eval(args[2])
		if (a.K == KInt || a.K == KMath) && (b.K == KInt || b.K == KMath) {
			return mathVal(Ite(c, a.X, b.X))
		}
		return iteVal(c, a, b)
	case "bebytes":
		// bebytes(s): the big-endian magnitude of a byte slice of any length - the uninterpreted function the models of
		// (*big.Int).Bytes / SetBytes use
		v := ev.eval(args[0])
		arr, off := ev.byteView(v)
		if v.K != KSlice {
			specFail("bebytes of non-slice")
		}
		return mathVal(App("be", SInt, arr, off, v.Len))
	case "le64", "be64", "le", "be":
		v := ev.eval(args[0])
		arr, off := ev.byteView(v)
		n := int64(8)
		if name == "le" || name == "be" {
			nt := ev.intTerm(args[1])
			if !nt.IsConst() {
				specFail("%s: constant length required", name)
			}
			n = nt.Val.Int64()
		}
		sum := Num(0)
		for i := int64(0); i < n; i++ {
			sh := i
			if name == "be64" || name == "be" {
				sh = n - 1 - i
			}
			by := Select(arr, Add(off, Num(i)))
			if by.Op == "select" {
				addTypeFact(And(Le(Num(0), by), Le(by, Num(255))))
			}
			sum = Add(sum, Mul(by, Pow2(uint(8*sh))))
		}
		return mathVal(sum)
	case "typeis":
		v := ev.eval(args[0])
		if args[1].Kind != "str" {
			specFail("typeis(x, \"T\")")
		}
		t := ev.c.resolveType(args[1].Name, ev.pkg)
		if t == nil {
			specFail("typeis: unknown type %s", args[1].Name)
		}
		return boolVal(And(Neq(v.X, Num(0)), Eq(App("dyn", SInt, v.X), Num(int64(ev.c.typeTag(tstr(t)))))))
	case "has":
		m := ev.eval(args[0])
		k := ev.eval(args[1])
		ks := mapKeySort(m.T)
		has := Select(Select(ev.st.heapGet("M:"+tstr(m.T)+"#has", SArr(SInt, SArr(ks, SBool))), m.X), ev.fr.mapKeyTerm(k))
		return boolVal(And(Neq(m.X, Num(0)), has))
	case "held":
		v := ev.eval(args[0])
		g, ok := ev.st.Ghost["held:"+ptrKey(v)]
		if !ok {
			g = TFalse
		}
		return boolVal(g)
	case "int":
		v := ev.eval(args[0])
		if v.K == KArr && v.X != nil && v.X.S != SInt {
			return mathVal(arrAsInt(v)) // a byte array as the little-endian integer the models use for array values
		}
		return mathVal(v.X)
	case "ptr":
		if args[0].Kind != "str" {
			specFail("ptr(\"*T\", id)")
		}
		t := ev.c.resolveType(args[0].Name, ev.pkg)
		if t == nil {
			specFail("ptr: unknown type %s", args[0].Name)
		}
		return mkPtr(t, ev.intTerm(args[1]))
	case "bytescmp":
		// lexicographic comparison of two byte strings, same abstraction as the model of bytes.Compare
		x, y := ev.eval(args[0]), ev.eval(args[1])
		return mathVal(ev.c.bytesCmp(ev.st, ev.viewOf(x), ev.viewOf(y)))
	case "timenano":
		v := ev.eval(args[0])
		if v.K == KPtr {
			v = ev.fr.load(ev.st, v, under(v.T).(*types.Pointer).Elem())
		}
		return mathVal(timeNano(v))
	case "bytescmpv":
		ev.c.orderAxioms()
		return mathVal(App("bytes.cmp", SInt, ev.intTerm(args[0]), ev.intTerm(args[1])))
	case "bytesval":
		// abstract value of a byte slice: an uninterpreted function of (content, offset, length)
		v := ev.eval(args[0])
		arr, off := ev.byteView(v)
		var ln *Term
		switch v.K {
		case KSlice:
			ln = v.Len
		case KArr:
			ln = Num(under(v.T).(*types.Array).Len())
		default:
			specFail("bytesval of non-bytes")
		}
		return mathVal(ev.c.bytesVal(arr, off, ln))
	case "arrbytes":
		// arrbytes(a, n): the abstract byte string of the n-byte array value a
		av := ev.eval(args[0])
		var at *Term
		if av.K == KArr {
			at = arrAsInt(av)
		} else if av.K == KInt || av.K == KMath {
			at = av.X
		} else {
			specFail("arrbytes: array value expected")
		}
		return mathVal(App("arrbytes", SInt, at, ev.intTerm(args[1])))
	case "blen":
		return mathVal(App("blen", SInt, ev.intTerm(args[0])))
	case "btail":
		return mathVal(ev.c.btail(ev.intTerm(args[0])))
	case "bcat":
		return mathVal(ev.c.bcat(ev.intTerm(args[0]), ev.intTerm(args[1])))
	case "bempty":
		return mathVal(ev.c.bempty())
	case "slice":
		// slice("[]T", arr, off, len): a slice value from its components (capacity = len)
		if args[0].Kind != "str" {
			specFail("slice(\"[]T\", arr, off, len)")
		}
		t := ev.c.resolveType(args[0].Name, ev.pkg)
		if t == nil {
			specFail("slice: unknown type %s", args[0].Name)
		}
		ln := ev.intTerm(args[3])
		return &Val{K: KSlice, T: t, X: ev.intTerm(args[1]), Off: ev.intTerm(args[2]), Len: ln, Cap: ln}
	case "iface":
		if args[0].Kind != "str" {
			specFail("iface(\"T\", id)")
		}
		t := ev.c.resolveType(args[0].Name, ev.pkg)
		if t == nil {
			specFail("iface: unknown type %s", args[0].Name)
		}
		return &Val{K: KIface, T: t, X: ev.intTerm(args[1])}
	case "deref":
		v := ev.eval(args[0])
		if v.K != KPtr {
			specFail("deref of non-pointer")
		}
		return ev.fr.load(ev.st, v, under(v.T).(*types.Pointer).Elem())
	}
	// spec functions
	if sf, ok := ev.c.S.SpecFns[name]; ok {
		return ev.applySpecFn(sf, args)
	}
	// Go functions: qualified or local
	var fv *Val
	if fn.Kind == "id" || fn.Kind == "sel" {
		fv = ev.tryEvalFn(fn)
	}
	if fv != nil && fv.Fn != nil {
		var avs []*Val
		for _, a := range args {
			avs = append(avs, ev.eval(a))
		}
		return ev.applyGoFnC(fv.Fn, avs, e, fv)
	}
	// method call x.M(args) where x evaluates to a value with a known method
	if fn.Kind == "sel" {
		recv := ev.eval(fn.Args[0])
		if m := ev.c.findMethod(recv.T, fn.Name); m != nil {
			avs := []*Val{recv}
			// adjust receiver pointer/value
			if _, wantPtr := m.Signature.Recv().Type().(*types.Pointer); !wantPtr && recv.K == KPtr {
				avs[0] = ev.fr.load(ev.st, recv, under(recv.T).(*types.Pointer).Elem())
			}
			for _, a := range args {
				avs = append(avs, ev.eval(a))
			}
			return ev.applyGoFn(m, avs, e)
		}
		if _, isI := under(recv.T).(*types.Interface); isI {
			return ev.applyIfaceMethod(recv, fn.Name, args, e)
		}
	}
	specFail("unknown function in spec: %s", e)
	return nil
}

func ptrKey(v *Val) string { return v.Root + v.Path + "@" + v.X.String() }

func (ev *Ev) tryEvalFn(fn *SExpr) (v *Val) {
	defer func() {
		if r := recover(); r != nil {
			if _, ok := r.(specError); ok {
				v = nil
				return
			}
			panic(r)
		}
	}()
	if fn.Kind == "sel" && fn.Args[0].Kind != "id" {
		return nil
	}
	r := ev.eval(fn)
	if r.K == KFunc {
		return r
	}
	return nil
}

func (c *Ctx) findMethod(t types.Type, name string) *ssa.Function {
	if t == nil {
		return nil
	}
	for _, rt := range []types.Type{t, types.NewPointer(t)} {
		if _, isPP := rt.(*types.Pointer); isPP {
			if _, isP2 := rt.(*types.Pointer).Elem().(*types.Pointer); isP2 {
				continue
			}
		}
		ms := c.P.SSA.MethodSets.MethodSet(rt)
		for i := 0; i < ms.Len(); i++ {
			if ms.At(i).Obj().Name() == name {
				if _, isI := under(t).(*types.Interface); isI {
					return nil
				}
				if f, ok := ms.At(i).Obj().(*types.Func); ok {
					if df := c.P.SSA.FuncValue(f); df != nil {
						return df
					}
				}
			}
		}
	}
	return nil
}

func (ev *Ev) applySpecFn(sf *SpecFn, args []*SExpr) *Val {
	if len(args) != len(sf.Params) {
		specFail("spec fn %s: want %d args", sf.Name, len(sf.Params))
	}
	var avs []*Val
	for _, a := range args {
		avs = append(avs, ev.eval(a))
	}
	if sf.Body == nil {
		var ts []*Term
		for _, a := range avs {
			if a.K == KArr {
				ts = append(ts, arrAsInt(a))
			} else {
				ts = append(ts, a.X)
			}
		}
		var rs *Sort
		switch sf.Ret {
		case "int":
			rs = SInt
		case "bool":
			rs = SBool
		case "str":
			rs = SStr
		case "arr":
			rs = SInt
		default:
			specFail("spec fn %s: unsupported result sort %s", sf.Name, sf.Ret)
		}
		r := termVal(App("spec!"+sf.Name, rs, ts...))
		// instantiate axioms: axioms mention the parameters and `result`
		env := map[string]*Val{"result": r}
		for i, p := range sf.Params {
			env[p.Name] = avs[i]
		}
		for _, ax := range sf.Axioms {
			sub := *ev
			sub.env = env
			sub.locals = false
			ev.c.addFact(sub.boolTerm(ax.Expr))
		}
		return r
	}
	env := map[string]*Val{}
	for i, p := range sf.Params {
		env[p.Name] = avs[i]
	}
	if p, ok := ev.env["$pkg"]; ok {
		env["$pkg"] = p
	}
	sub := *ev
	sub.env = env
	sub.locals = false
	return sub.eval(sf.Body)
}

// applyGoFn uses a Go function inside a specification: by its `function` contract (uninterpreted application + ensures) or by
// symbolic execution of its body.
func (ev *Ev) applyGoFn(fn *ssa.Function, args []*Val, e *SExpr) *Val {
	return ev.applyGoFnC(fn, args, e, nil)
}

func (ev *Ev) applyGoFnC(fn *ssa.Function, args []*Val, e *SExpr, closure *Val) *Val {
	c := ev.c
	// coerce untyped math arguments to parameter types
	for i, p := range fn.Params {
		if i < len(args) && args[i].K == KMath && kindOf(p.Type()) == KInt {
			args[i] = &Val{K: KInt, T: p.Type(), X: args[i].X}
		}
	}
	if con := c.contractFor(fn); con != nil && !con.Inline {
		st := ev.st.clone()
		if ev.mutate {
			st = ev.st
		}
		c.noObligations++
		r := ev.fr.applyContract(st, con, fn.String(), fn, fn.Signature, args, 0)
		c.noObligations--
		return r
	}
	if !c.inlinable(fn) {
		specFail("function %s cannot be used in a spec (no contract, not inlinable)", fn)
	}
	st := ev.st.clone()
	if ev.mutate {
		c.noObligations++
		r, ns := ev.fr.inline(ev.st, fn, args, closure, 0)
		c.noObligations--
		if r == nil || ns == nil {
			specFail("function %s does not return", fn)
		}
		ns.R = ev.st.R
		*ev.st = *ns
		return r
	}
	c.noObligations++
	if closure != nil && len(closure.Binds) == 0 {
		closure = nil
	}
	r, _ := ev.fr.inline(st, fn, args, closure, 0)
	c.noObligations--
	if r == nil {
		specFail("function %s does not return", fn)
	}
	return r
}

func (ev *Ev) applyIfaceMethod(recv *Val, name string, args []*SExpr, e *SExpr) *Val {
	c := ev.c
	it := under(recv.T).(*types.Interface)
	for i := 0; i < it.NumMethods(); i++ {
		m := it.Method(i)
		if m.Name() != name {
			continue
		}
		k, ok := ifaceMethodKey(recv.T, m)
		var con *Contract
		if ok {
			con = c.S.Contracts[k]
		}
		if con == nil {
			if r := m.Type().(*types.Signature).Recv(); r != nil {
				if k2, ok := ifaceMethodKey(r.Type(), m); ok {
					con = c.S.Contracts[k2]
				}
			}
		}
		if con == nil {
			specFail("interface method %s has no contract", name)
		}
		avs := []*Val{recv}
		for _, a := range args {
			avs = append(avs, ev.eval(a))
		}
		st := ev.st.clone()
		c.noObligations++
		r := ev.fr.applyContract(st, con, name, nil, m.Type().(*types.Signature), avs, 0)
		c.noObligations--
		return r
	}
	specFail("no method %s", name)
	return nil
}

// arrAsInt is the little-endian integer value of a fixed-size byte array (the representation of `arr` in specifications).
func arrAsInt(v *Val) *Term {
	at, ok := under(v.T).(*types.Array)
	if !ok || at.Len() > 64 {
		specFail("array value of type %v cannot be used as a specification-level byte array", v.T)
	}
	sum := Num(0)
	for i := int64(0); i < at.Len(); i++ {
		el := Select(v.X, Num(i))
		elemRangeFact(el, at.Elem())
		sum = Add(sum, Mul(el, Pow2(uint(8*i))))
	}
	return sum
}

// ---- the algebra of abstract byte strings: bytesval(content, off, len) with blen / btail / bcat / bempty ----------------
func (c *Ctx) bempty() *Term { return App("bempty", SInt) }

func (c *Ctx) bytesVal(arr, off, ln *Term) *Term {
	v := App("bytesval", SInt, arr, off, ln)
	c.addFact(Eq(App("blen", SInt, v), ln))
	c.addFact(Implies(Eq(ln, Num(0)), Eq(v, c.bempty())))
	c.addFact(Eq(App("blen", SInt, c.bempty()), Num(0)))
	return v
}

func (c *Ctx) btail(v *Term) *Term {
	t := App("btail", SInt, v)
	c.addFact(Implies(Le(Num(1), App("blen", SInt, v)), Eq(App("blen", SInt, t), Sub(App("blen", SInt, v), Num(1)))))
	c.addFact(Implies(Eq(App("blen", SInt, t), Num(0)), Eq(t, c.bempty())))
	return t
}

func (c *Ctx) bcat(a, b *Term) *Term {
	t := App("bcat", SInt, a, b)
	la, lb := App("blen", SInt, a), App("blen", SInt, b)
	c.addFact(Eq(App("blen", SInt, t), Add(la, lb)))
	c.addFact(And(Le(Num(0), la), Le(Num(0), lb)))
	c.addFact(Implies(Eq(la, Num(1)), Eq(App("btail", SInt, t), b)))
	c.addFact(Implies(Eq(la, Num(0)), Eq(t, b)))
	c.addFact(Implies(Eq(lb, Num(0)), Eq(t, a)))
	c.addFact(Eq(App("blen", SInt, c.bempty()), Num(0)))
	return t
}

type bview struct{ arr, off, ln *Term }

func (ev *Ev) viewOf(v *Val) bview {
	arr, off := ev.byteView(v)
	switch v.K {
	case KSlice:
		return bview{arr, off, v.Len}
	case KArr:
		return bview{arr, off, Num(under(v.T).(*types.Array).Len())}
	}
	specFail("byte view of %v", v.T)
	return bview{}
}

// bytesCmp is the shared model of bytes.Compare: an uninterpreted three-valued function on views that is antisymmetric and
// zero exactly on equal contents (the lexicographic definition itself is not unfolded).
func (c *Ctx) bytesCmp(st *State, x, y bview) *Term {
	vx := c.bytesVal(x.arr, x.off, x.ln)
	vy := c.bytesVal(y.arr, y.off, y.ln)
	r := App("bytes.cmp", SInt, vx, vy)
	c.orderAxioms()
	c.addFact(And(Le(Num(-1), r), Le(r, Num(1))))
	c.addFact(Eq(App("bytes.cmp", SInt, vy, vx), Neg(r)))
	c.addFact(Implies(Eq(vx, vy), Eq(r, Num(0))))
	var same *Term
	if x.ln.IsConst() && y.ln.IsConst() && x.ln.Val.IsInt64() && x.ln.Val.Int64() <= 64 {
		if x.ln.Val.Cmp(y.ln.Val) != 0 {
			same = TFalse
		} else {
			var cs []*Term
			for i := int64(0); i < x.ln.Val.Int64(); i++ {
				cs = append(cs, Eq(Select(x.arr, Add(x.off, Num(i))), Select(y.arr, Add(y.off, Num(i)))))
			}
			same = And(cs...)
		}
	} else {
		q := BoundVar("j", SInt)
		same = And(Eq(x.ln, y.ln), Forall([]*Term{q}, Implies(And(Le(Num(0), q), Lt(q, x.ln)), Eq(Select(x.arr, SliceIdx(x.off, q)), Select(y.arr, SliceIdx(y.off, q))))))
	}
	c.addFact(Eq(Eq(r, Num(0)), same))
	return r
}

// byteView returns (content array, offset) for a [N]byte value or a []byte slice.
func (ev *Ev) byteView(v *Val) (*Term, *Term) {
	switch v.K {
	case KArr:
		return v.X, Num(0)
	case KSlice:
		arr := ev.st.heapGet("S:byte", SArr(SInt, SArr(SInt, SInt)))
		return Select(arr, v.X), v.Off
	case KMath:
		if v.X.S.IsArr() {
			return v.X, Num(0)
		}
	}
	specFail("expected byte array or slice")
	return nil, nil
}

// ---------------------------------------------------------------------------------------------
// model fields

func modelKey(mf *ModelField) string { return "MF:" + strings.TrimPrefix(mf.Type, modPath+"/") + "." + mf.Field }

func namedOf(t types.Type) *types.Named {
	if t == nil {
		return nil
	}
	if p, ok := t.(*types.Pointer); ok {
		t = p.Elem()
	}
	n, _ := t.(*types.Named)
	return n
}

func (c *Ctx) modelField(t types.Type, field string) *ModelField {
	n := namedOf(t)
	if n == nil || n.Obj().Pkg() == nil {
		return nil
	}
	if mf, ok := c.S.Models[n.Obj().Pkg().Path()+"."+n.Obj().Name()+"."+field]; ok {
		return mf
	}
	// embedded interfaces
	if it, ok := under(n).(*types.Interface); ok {
		for i := 0; i < it.NumEmbeddeds(); i++ {
			if mf := c.modelField(it.EmbeddedType(i), field); mf != nil {
				return mf
			}
		}
	}
	return nil
}

func (c *Ctx) modelFieldsOf(t types.Type) []*ModelField {
	n := namedOf(t)
	if n == nil || n.Obj().Pkg() == nil {
		return nil
	}
	var out []*ModelField
	pfx := n.Obj().Pkg().Path() + "." + n.Obj().Name() + "."
	for k, mf := range c.S.Models {
		if strings.HasPrefix(k, pfx) {
			out = append(out, mf)
		}
	}
	if it, ok := under(n).(*types.Interface); ok {
		for i := 0; i < it.NumEmbeddeds(); i++ {
			out = append(out, c.modelFieldsOf(it.EmbeddedType(i))...)
		}
	}
	return out
}

func modelSort(s string) *Sort {
	switch s {
	case "int", "ref":
		return SInt
	case "bool":
		return SBool
	case "str":
		return SStr
	case "arr", "bytes":
		return SInt // fixed-size byte arrays are represented by their little-endian integer value in specifications
	}
	if strings.HasPrefix(s, "map[") {
		j := strings.Index(s, "]")
		return SArr(modelSort(s[4:j]), modelSort(s[j+1:]))
	}
	panic("unknown model sort " + s)
}

func (c *Ctx) readModel(st *State, mf *ModelField, obj *Val) *Val {
	srt := modelSort(mf.Sort)
	arr := st.heapGet(modelKey(mf), SArr(SInt, srt))
	return termVal(Select(arr, obj.X))
}

func (fr *Frame) havocModelFields(st *State, obj *Val, only string) {
	for _, mf := range fr.C.modelFieldsOf(obj.T) {
		if only != "" && mf.Field != only {
			continue
		}
		srt := modelSort(mf.Sort)
		key := modelKey(mf)
		arr := st.heapGet(key, SArr(SInt, srt))
		st.heapSet(key, Store(arr, obj.X, Fresh("mod!"+mf.Field, srt)))
	}
}

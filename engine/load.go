package main

import (
	"fmt"
	"go/constant"
	"go/token"
	"go/types"
	"os"
	"path/filepath"
	"sort"
	"strings"

	"golang.org/x/tools/go/packages"
	"golang.org/x/tools/go/ssa"
	"golang.org/x/tools/go/ssa/ssautil"
)

const modPath = "github.com/zenon-network/go-zenon"

type Program struct {
	Fset     *token.FileSet
	Pkgs     []*packages.Package
	PkgByPath map[string]*packages.Package
	SSA      *ssa.Program
	SSAPkg   map[string]*ssa.Package
	// globals that are stored to outside of package init (non-constant)
	MutGlobals map[*ssa.Global]bool
	// init-time constant values of globals (when recognisable)
	GlobalInit map[*ssa.Global]ssa.Value
	RepoDir    string
	LoadSecs   float64
}

// scratchModfile copies go.mod/go.sum out of the repo so that go tooling never rewrites /repo/go.mod.
func scratchModfile(repo string) (string, func()) {
	dir, err := os.MkdirTemp("", "gvcmod")
	if err != nil {
		panic(err)
	}
	for _, f := range []string{"go.mod", "go.sum"} {
		b, err := os.ReadFile(filepath.Join(repo, f))
		if err != nil {
			panic(err)
		}
		if err := os.WriteFile(filepath.Join(dir, f), b, 0644); err != nil {
			panic(err)
		}
	}
	return filepath.Join(dir, "go.mod"), func() { os.RemoveAll(dir) }
}

func goEnv(modfile string) []string {
	env := os.Environ()
	var out []string
	for _, e := range env {
		if strings.HasPrefix(e, "GOFLAGS=") || strings.HasPrefix(e, "GOPROXY=") || strings.HasPrefix(e, "GOSUMDB=") || strings.HasPrefix(e, "GOTOOLCHAIN=") {
			continue
		}
		out = append(out, e)
	}
	out = append(out, "GOFLAGS=-mod=mod -modfile="+modfile, "GOPROXY=off", "GOSUMDB=off", "GOTOOLCHAIN=local")
	return out
}

func LoadProgram(repo string, patterns []string) (*Program, error) {
	modfile, cleanup := scratchModfile(repo)
	defer cleanup()
	cfg := &packages.Config{
		Mode: packages.NeedName | packages.NeedFiles | packages.NeedCompiledGoFiles | packages.NeedImports |
			packages.NeedTypes | packages.NeedSyntax | packages.NeedTypesInfo | packages.NeedTypesSizes,
		Dir:        repo,
		Env:        goEnv(modfile),
		BuildFlags: []string{"-tags=verif"},
		Tests:      false,
	}
	pkgs, err := packages.Load(cfg, patterns...)
	if err != nil {
		return nil, err
	}
	var errs []string
	packages.Visit(pkgs, nil, func(p *packages.Package) {
		for _, e := range p.Errors {
			errs = append(errs, e.Error())
		}
	})
	if len(errs) > 0 {
		return nil, fmt.Errorf("package load errors:\n%s", strings.Join(errs, "\n"))
	}
	prog, spkgs := ssautil.AllPackages(pkgs, ssa.NaiveForm|ssa.GlobalDebug|ssa.InstantiateGenerics)
	_ = spkgs
	P := &Program{Fset: pkgs[0].Fset, Pkgs: pkgs, SSA: prog, PkgByPath: map[string]*packages.Package{}, SSAPkg: map[string]*ssa.Package{},
		MutGlobals: map[*ssa.Global]bool{}, GlobalInit: map[*ssa.Global]ssa.Value{}, RepoDir: repo}
	packages.Visit(pkgs, nil, func(p *packages.Package) {
		P.PkgByPath[p.PkgPath] = p
	})
	// Build only module packages (and a few library ones we may inline) to save time.
	for _, sp := range prog.AllPackages() {
		path := sp.Pkg.Path()
		P.SSAPkg[path] = sp
		if strings.HasPrefix(path, modPath) || path == "math/big" {
			sp.Build()
		}
	}
	P.scanGlobals()
	return P, nil
}

func inModule(path string) bool { return strings.HasPrefix(path, modPath) }

// scanGlobals finds, for module packages, which globals are stored outside init, and the init values.
func (P *Program) scanGlobals() {
	for path, sp := range P.SSAPkg {
		if !inModule(path) {
			continue
		}
		for _, m := range sp.Members {
			fn, ok := m.(*ssa.Function)
			if !ok {
				continue
			}
			P.scanFn(fn, fn.Name() == "init")
		}
		// methods
		for _, m := range sp.Members {
			if t, ok := m.(*ssa.Type); ok {
				for _, recv := range []types.Type{t.Type(), types.NewPointer(t.Type())} {
					ms := P.SSA.MethodSets.MethodSet(recv)
					for i := 0; i < ms.Len(); i++ {
						f := P.SSA.MethodValue(ms.At(i))
						if f != nil && f.Pkg == sp {
							P.scanFn(f, false)
						}
					}
				}
			}
		}
	}
}

var scannedFns = map[*ssa.Function]bool{}

func (P *Program) scanFn(fn *ssa.Function, isInit bool) {
	if fn == nil || scannedFns[fn] || fn.Blocks == nil {
		return
	}
	scannedFns[fn] = true
	for _, b := range fn.Blocks {
		for _, ins := range b.Instrs {
			switch x := ins.(type) {
			case *ssa.Store:
				if g, ok := x.Addr.(*ssa.Global); ok {
					if isInit {
						if _, dup := P.GlobalInit[g]; dup {
							P.MutGlobals[g] = true
						}
						P.GlobalInit[g] = x.Val
					} else {
						P.MutGlobals[g] = true
					}
				} else if isInit {
					// stores through &global[i] etc. are initialisation of composite; keep
				} else {
					// store through pointer derived from global (e.g. field/index): mark root global mutable
					if g := rootGlobal(x.Addr); g != nil {
						P.MutGlobals[g] = true
					}
				}
			case *ssa.MakeClosure:
				if f, ok := x.Fn.(*ssa.Function); ok {
					P.scanFn(f, false)
				}
			case *ssa.MapUpdate:
				// G[k] = v on a map read straight from a package-level variable: the map's content is not constant
				if u, ok := x.Map.(*ssa.UnOp); ok {
					if g, ok := u.X.(*ssa.Global); ok {
						P.MutGlobals[g] = true
					}
				}
			case *ssa.Call:
				if b, ok := x.Call.Value.(*ssa.Builtin); ok && b.Name() == "delete" {
					if u, ok := x.Call.Args[0].(*ssa.UnOp); ok {
						if g, ok := u.X.(*ssa.Global); ok {
							P.MutGlobals[g] = true
						}
					}
				}
			}
			// address of global escaping as operand of call etc. is ignored (documented assumption)
		}
	}
	for _, af := range fn.AnonFuncs {
		P.scanFn(af, false)
	}
}

func rootGlobal(v ssa.Value) *ssa.Global {
	for i := 0; i < 8; i++ {
		switch x := v.(type) {
		case *ssa.Global:
			return x
		case *ssa.FieldAddr:
			v = x.X
		case *ssa.IndexAddr:
			v = x.X
		default:
			return nil
		}
	}
	return nil
}

// LookupFunc finds a function by key "pkgpath.Name" or "pkgpath.Type.Method" (pointer or value receiver).
func (P *Program) LookupFunc(pkgPath, key string) *ssa.Function {
	sp := P.SSAPkg[pkgPath]
	if sp == nil {
		return nil
	}
	parts := strings.Split(key, ".")
	if len(parts) == 1 {
		// closure syntax name$1
		base := parts[0]
		if i := strings.Index(base, "$"); i >= 0 {
			f := sp.Func(base[:i])
			if f == nil {
				return nil
			}
			return findAnon(f, base)
		}
		return sp.Func(parts[0])
	}
	tn := sp.Type(parts[0])
	if tn == nil {
		return nil
	}
	mname := parts[1]
	anon := ""
	if i := strings.Index(mname, "$"); i >= 0 {
		anon = mname
		mname = mname[:i]
	}
	for _, recv := range []types.Type{types.NewPointer(tn.Type()), tn.Type()} {
		ms := P.SSA.MethodSets.MethodSet(recv)
		for i := 0; i < ms.Len(); i++ {
			sel := ms.At(i)
			if sel.Obj().Name() == mname {
				f := P.SSA.MethodValue(sel)
				if f == nil {
					continue
				}
				// skip wrappers: prefer the declared one
				if f.Synthetic != "" {
					if obj, ok := sel.Obj().(*types.Func); ok {
						if df := P.SSA.FuncValue(obj); df != nil {
							f = df
						}
					}
				}
				if anon != "" {
					return findAnon(f, anon)
				}
				return f
			}
		}
	}
	return nil
}

func findAnon(f *ssa.Function, name string) *ssa.Function {
	for _, a := range f.AnonFuncs {
		if a.Name() == name {
			return a
		}
		if r := findAnon(a, name); r != nil {
			return r
		}
	}
	return nil
}

// FuncKey returns (pkgpath, key) of an ssa.Function in the format used by contracts.
func FuncKey(f *ssa.Function) (string, string) {
	if f == nil {
		return "", ""
	}
	if f.Parent() != nil {
		p, k := FuncKey(f.Parent())
		_ = k
		// name of anon func includes parent's name, e.g. "foo$1"
		if f.Parent().Signature.Recv() != nil {
			return p, recvTypeName(f.Parent().Signature.Recv().Type()) + "." + f.Name()
		}
		return p, f.Name()
	}
	pkg := ""
	if f.Pkg != nil {
		pkg = f.Pkg.Pkg.Path()
	} else if f.Object() != nil && f.Object().Pkg() != nil {
		pkg = f.Object().Pkg().Path()
	}
	if recv := f.Signature.Recv(); recv != nil {
		return pkg, recvTypeName(recv.Type()) + "." + f.Name()
	}
	return pkg, f.Name()
}

func recvTypeName(t types.Type) string {
	if p, ok := t.(*types.Pointer); ok {
		t = p.Elem()
	}
	if n, ok := t.(*types.Named); ok {
		return n.Obj().Name()
	}
	return t.String()
}

func constInt(v ssa.Value) (int64, bool) {
	c, ok := v.(*ssa.Const)
	if !ok || c.Value == nil {
		return 0, false
	}
	if c.Value.Kind() != constant.Int {
		return 0, false
	}
	i, ok := constant.Int64Val(c.Value)
	return i, ok
}

func sortedKeys[V any](m map[string]V) []string {
	var ks []string
	for k := range m {
		ks = append(ks, k)
	}
	sort.Strings(ks)
	return ks
}

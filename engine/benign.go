package main

// Mechanical behaviour-preserving rewrites of the functions under contract, used by tools/benign_sweep.sh to look for false
// alarms: a check that stops passing after one of these edits is brittle (the property still holds).
//
//   gvc benign rename  : every local variable, parameter and named result of every function under contract gets a new name
//   gvc benign swapif  : every `if c { A } else { B }` (plain else block) in those functions becomes `if !(c) { B } else { A }`
//   gvc benign invertguard: the first top-level `if c { ...; return ... }` guard of each function that is followed by more
//                       statements becomes `if !(c) { <the rest of the function> } else { ...; return ... }`
//   gvc benign padlines: two blank comment lines are inserted before every function under contract (shifts line numbers)
//
// The rewrites are applied to /repo's working tree in place (the caller reverts with git checkout).

import (
	"fmt"
	"go/ast"
	"go/token"
	"go/types"
	"os"
	"sort"
	"strings"

	"golang.org/x/tools/go/ssa"
)

type edit struct {
	off, end int
	text     string
}

func cmdBenign(args []string) int {
	if len(args) < 1 {
		fmt.Println("usage: gvc benign rename|swapif|padlines [pkg:Key ...]")
		return 2
	}
	kind := args[0]
	repoDir := os.Getenv("GVC_REPO") // scratch worktree for trying the rewriter itself
	if repoDir == "" {
		repoDir = "/repo"
	}
	P, S, _ := setup(repoDir, "/verif")
	only := map[string]bool{}
	for _, a := range args[1:] {
		pkg, key := splitKey(a)
		only[pkg+"."+key] = true
	}
	edits := map[string][]edit{}
	nfn := 0
	var keys []string
	for k := range S.Contracts {
		keys = append(keys, k)
	}
	sort.Strings(keys)
	seenDecl := map[*ast.FuncDecl]bool{}
	for _, k := range keys {
		ct := S.Contracts[k]
		if len(only) > 0 && !only[ct.PkgPath+"."+ct.Key] {
			continue
		}
		if strings.Contains(ct.Key, "$") {
			continue
		}
		fn := P.LookupFunc(ct.PkgPath, ct.Key)
		if fn == nil || len(fn.Blocks) == 0 || fn.Syntax() == nil {
			continue
		}
		decl, ok := fn.Syntax().(*ast.FuncDecl)
		if !ok || decl.Body == nil || seenDecl[decl] {
			continue
		}
		seenDecl[decl] = true
		pkg := P.PkgByPath[ct.PkgPath]
		if pkg == nil {
			continue
		}
		file := P.Fset.Position(decl.Pos()).Filename
		if strings.HasSuffix(file, "_test.go") || strings.HasSuffix(file, ".pb.go") {
			continue
		}
		nfn++
		switch kind {
		case "rename":
			edits[file] = append(edits[file], renameEdits(P.Fset, pkg.TypesInfo, decl, fn)...)
		case "swapif":
			src, _ := os.ReadFile(file)
			edits[file] = append(edits[file], swapIfEdits(P.Fset, decl, src)...)
		case "invertguard":
			src, _ := os.ReadFile(file)
			edits[file] = append(edits[file], invertGuardEdits(P.Fset, decl, src)...)
		case "padlines":
			off := P.Fset.Position(decl.Pos()).Offset
			if decl.Doc != nil {
				off = P.Fset.Position(decl.Doc.Pos()).Offset
			}
			edits[file] = append(edits[file], edit{off, off, "// (padding inserted by the benign sweep)\n\n"})
		}
	}
	nfiles, nedits := 0, 0
	for file, es := range edits {
		if len(es) == 0 {
			continue
		}
		src, err := os.ReadFile(file)
		if err != nil {
			fmt.Println(err)
			return 2
		}
		sort.Slice(es, func(i, j int) bool { return es[i].off > es[j].off })
		last := len(src) + 1
		for _, e := range es {
			if e.end > last { // overlapping edits: skip the outer one
				continue
			}
			src = append(src[:e.off], append([]byte(e.text), src[e.end:]...)...)
			last = e.off
			nedits++
		}
		os.WriteFile(file, src, 0o644)
		nfiles++
	}
	fmt.Printf("benign %s: %d functions, %d edits in %d files\n", kind, nfn, nedits, nfiles)
	return 0
}

func renameEdits(fset *token.FileSet, info *types.Info, decl *ast.FuncDecl, fn *ssa.Function) []edit {
	var out []edit
	fscope := info.Scopes[decl.Type]
	if fscope == nil {
		return nil
	}
	inside := func(v *types.Var) bool {
		if v.IsField() {
			return false
		}
		for s := v.Parent(); s != nil; s = s.Parent() {
			if s == fscope {
				return true
			}
		}
		return false
	}
	// names in use in the package scope / universe must not be captured
	taken := map[string]bool{}
	ast.Inspect(decl, func(n ast.Node) bool {
		if id, ok := n.(*ast.Ident); ok {
			taken[id.Name] = true
		}
		return true
	})
	newName := func(old string) string {
		n := old + "Rn"
		for taken[n] || fn.Pkg.Pkg.Scope().Lookup(n) != nil {
			n += "x"
		}
		return n
	}
	ast.Inspect(decl, func(n ast.Node) bool {
		id, ok := n.(*ast.Ident)
		if !ok || id.Name == "_" {
			return true
		}
		var obj types.Object
		if o := info.Defs[id]; o != nil {
			obj = o
		} else if o := info.Uses[id]; o != nil {
			obj = o
		}
		v, ok := obj.(*types.Var)
		if !ok || !inside(v) {
			return true
		}
		p := fset.Position(id.Pos())
		out = append(out, edit{p.Offset, p.Offset + len(id.Name), newName(id.Name)})
		return true
	})
	// `x := x`-free guarantee is not needed: the mapping old->new is injective per name. Struct-literal keys and selector
	// fields are *types.Var fields (skipped); labels and package names are not Vars.
	return out
}

func swapIfEdits(fset *token.FileSet, decl *ast.FuncDecl, src []byte) []edit {
	var out []edit
	ast.Inspect(decl.Body, func(n ast.Node) bool {
		st, ok := n.(*ast.IfStmt)
		if !ok || st.Else == nil {
			return true
		}
		eb, ok := st.Else.(*ast.BlockStmt)
		if !ok {
			return true
		}
		// do not swap when either branch declares nothing that escapes (blocks are scopes, so always safe); skip if the
		// statement is itself the else-branch of another if (would need braces)
		c0, c1 := fset.Position(st.Cond.Pos()).Offset, fset.Position(st.Cond.End()).Offset
		b0, b1 := fset.Position(st.Body.Pos()).Offset, fset.Position(st.Body.End()).Offset
		e0, e1 := fset.Position(eb.Pos()).Offset, fset.Position(eb.End()).Offset
		text := "!(" + string(src[c0:c1]) + ") " + string(src[e0:e1]) + " else " + string(src[b0:b1])
		out = append(out, edit{c0, e1, text})
		return false // nested ifs inside are left alone (their text was copied verbatim)
	})
	return out
}

func invertGuardEdits(fset *token.FileSet, decl *ast.FuncDecl, src []byte) []edit {
	list := decl.Body.List
	// a function whose results are unnamed and non-empty must end in a terminating statement: after the rewrite the
	// if/else is terminating only if the moved rest ends in one, which it does when the function did
	for i, s := range list {
		st, ok := s.(*ast.IfStmt)
		if !ok || st.Else != nil || st.Init != nil || i == len(list)-1 || len(st.Body.List) == 0 {
			continue
		}
		if _, ok := st.Body.List[len(st.Body.List)-1].(*ast.ReturnStmt); !ok {
			continue
		}
		// labels, gotos and defers-in-rest are fine; a declaration in the rest that the guard body could not see stays
		// invisible to it. Skip when the rest contains a label (goto across blocks).
		hasLabel := false
		for _, r := range list[i+1:] {
			ast.Inspect(r, func(n ast.Node) bool {
				if _, ok := n.(*ast.LabeledStmt); ok {
					hasLabel = true
				}
				return true
			})
		}
		if hasLabel {
			continue
		}
		// a `x, err := ...` in the rest that re-uses a variable declared earlier at function level would, once moved into
		// the new block, declare a fresh one instead (and leave the outer one unused or unassigned): not behaviour-preserving
		declared := map[string]bool{}
		addFields := func(fl *ast.FieldList) {
			if fl == nil {
				return
			}
			for _, f := range fl.List {
				for _, n := range f.Names {
					declared[n.Name] = true
				}
			}
		}
		addFields(decl.Recv)
		addFields(decl.Type.Params)
		addFields(decl.Type.Results)
		for _, e := range list[:i+1] {
			switch d := e.(type) {
			case *ast.AssignStmt:
				if d.Tok == token.DEFINE {
					for _, l := range d.Lhs {
						if id, ok := l.(*ast.Ident); ok {
							declared[id.Name] = true
						}
					}
				}
			case *ast.DeclStmt:
				if gd, ok := d.Decl.(*ast.GenDecl); ok {
					for _, sp := range gd.Specs {
						if vs, ok := sp.(*ast.ValueSpec); ok {
							for _, n := range vs.Names {
								declared[n.Name] = true
							}
						}
					}
				}
			}
		}
		redeclares := false
		for _, r := range list[i+1:] {
			if as, ok := r.(*ast.AssignStmt); ok && as.Tok == token.DEFINE {
				for _, l := range as.Lhs {
					if id, ok := l.(*ast.Ident); ok && id.Name != "_" && declared[id.Name] {
						redeclares = true
					}
				}
			}
		}
		if redeclares {
			continue
		}
		c0, c1 := fset.Position(st.Cond.Pos()).Offset, fset.Position(st.Cond.End()).Offset
		b0, b1 := fset.Position(st.Body.Pos()).Offset, fset.Position(st.Body.End()).Offset
		r0 := fset.Position(list[i+1].Pos()).Offset
		r1 := fset.Position(decl.Body.Rbrace).Offset
		text := "!(" + string(src[c0:c1]) + ") {\n" + string(src[r0:r1]) + "} else " + string(src[b0:b1]) + "\n"
		return []edit{{c0, r1, text}}
	}
	return nil
}

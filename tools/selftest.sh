#!/bin/bash
# Must-fail / must-pass corpus: every seeded change and mutant must make its property's check report a VIOLATION; every benign
# edit and the unchanged tree must pass. Uses /repo itself (applies and reverts each patch); refuses a dirty tree.
set -u
cd /verif
if [ -n "$(git -C /repo status --porcelain)" ]; then echo "REFUSING: /repo working tree is dirty"; exit 2; fi
FAIL=0
only=" ${*:-} "   # optional list of property ids; empty = all
[ "$only" = "  " ] && only=""
echo "== unchanged tree"
for cfg in checks/*.json; do id=$(basename $cfg .json)
  out=$(bin/check $id 2>&1); rc=$?
  if [ $rc -ne 0 ]; then echo "BROKEN $id on unchanged tree (exit $rc)"; echo "$out" | grep -v "^KNOWN" | tail -5; FAIL=1; else echo "ok   $id $(echo "$out" | tail -1 | cut -d: -f2- | cut -c1-80)"; fi
done
echo "== must-fail"
for p in seeded/*/patch.diff selftest/mutants/*.diff; do [ -f "$p" ] || continue
  if [[ $p == seeded/* ]]; then name=$(basename $(dirname $p)); else name=$(basename $p .diff); fi
  id=${name%%-*}; [ -n "$only" ] && [[ "$only" != *" $id "* ]] && continue
  [ -f checks/$id.json ] || { echo "skip $name (no check for $id yet)"; continue; }
  if [ -f seeded/$name/meta.json ] && grep -q '"detected_by": "NOT DETECTED' seeded/$name/meta.json; then echo "skip $name (recorded as not detected)"; continue; fi
  git -C /repo apply /verif/$p 2>/dev/null || { echo "PATCH-DOES-NOT-APPLY $name"; FAIL=1; continue; }
  out=$(bin/check $id 2>&1); rc=$?
  git -C /repo checkout -- . 
  if [ $rc -eq 1 ] && echo "$out" | grep -q "^VIOLATION property=$id"; then echo "ok   $name caught: $(echo "$out" | grep ^VIOLATION | head -1 | sed 's/.*obligation=//' | cut -c1-90)"; else echo "MISSED $name (exit $rc)"; echo "$out" | tail -3; FAIL=1; fi
done
echo "== benign (must pass)"
for p in selftest/benign/*.diff; do [ -f "$p" ] || continue
  name=$(basename $p .diff); id=${name%%-*}; [ -n "$only" ] && [[ "$only" != *" $id "* ]] && continue
  git -C /repo apply /verif/$p 2>/dev/null || { echo "PATCH-DOES-NOT-APPLY $name"; FAIL=1; continue; }
  out=$(bin/check $id 2>&1); rc=$?
  git -C /repo checkout -- .
  if [ $rc -eq 0 ]; then echo "ok   $name passes"; else echo "FALSE-ALARM $name (exit $rc)"; echo "$out" | grep -v "^KNOWN" | tail -3; FAIL=1; fi
done
echo "== refactorings beyond what the anchoring follows (must answer UNDECIDED: exit 2, no VIOLATION line)"
for p in selftest/undecided/*.diff; do [ -f "$p" ] || continue
  name=$(basename $p .diff); id=${name%%-*}; [ -n "$only" ] && [[ "$only" != *" $id "* ]] && continue
  git -C /repo apply /verif/$p 2>/dev/null || { echo "PATCH-DOES-NOT-APPLY $name"; FAIL=1; continue; }
  out=$(bin/check $id 2>&1); rc=$?
  git -C /repo checkout -- .
  if [ $rc -eq 2 ] && ! echo "$out" | grep -q "^VIOLATION"; then echo "ok   $name undecided: $(echo "$out" | grep ^UNDECIDED | head -1 | cut -c1-110)"; else echo "WRONG-ANSWER $name (exit $rc)"; echo "$out" | grep -v "^KNOWN" | tail -3; FAIL=1; fi
done

tools/refresh_evidence.sh > /dev/null
exit $FAIL

#!/bin/bash
# usage: seed_confirm.sh <worktree> <property-id> <seed-name>
# Confirms an independently seeded change: builds, runs the demo with and without the change, runs the existing suite with the
# change, stores patch+demo+meta under /verif/seeded/<seed-name>/, then runs the property's check against /repo with the patch applied.
set -u
WT=$1; PID=$2; NAME=$3
export GOFLAGS=-mod=mod GOPROXY=off GOSUMDB=off GOTOOLCHAIN=local
OUT=/verif/seeded/$NAME; mkdir -p $OUT
cd $WT || exit 2
git checkout -q go.mod go.sum 2>/dev/null
git diff -- . ':(exclude)go.mod' ':(exclude)go.sum' ':(exclude)**/zz_verif_contracts.go' ':(exclude)zz_verif_contracts.go' > $OUT/patch.diff
DEMO=$(git status --porcelain | grep '^??' | awk '{print $2}' | grep -v SEED_REPORT | head -5)
echo "patch: $(grep -c '^[-+][^-+]' $OUT/patch.diff) changed lines; demo files: $DEMO"
for d in $DEMO; do mkdir -p $OUT/demo/$(dirname $d); cp -r $d $OUT/demo/$d; done
cp SEED_REPORT.md $OUT/ 2>/dev/null
DEMOPKGS=$(for d in $DEMO; do echo ./$(dirname $d); done | sort -u | tr '\n' ' ')
echo "== build with change"; go build ./... && echo BUILD-OK
echo "== demo with change (expect FAIL)"; go test -vet=off -count=1 -run 'Seed|seed|Demo|demo|Zz|ZZ' $DEMOPKGS 2>&1 | tail -5
go test -vet=off -count=1 $DEMOPKGS > /tmp/seedc_with_$NAME.log 2>&1; W=$?
git apply -R $OUT/patch.diff || { echo "cannot revert"; exit 2; }
echo "== demo without change (expect PASS)"; go test -vet=off -count=1 $DEMOPKGS > /tmp/seedc_without_$NAME.log 2>&1; WO=$?; tail -3 /tmp/seedc_without_$NAME.log
git apply $OUT/patch.diff
git checkout -q go.mod go.sum 2>/dev/null
echo "demo exit with change=$W without change=$WO"

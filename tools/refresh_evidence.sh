#!/bin/bash
# Re-runs every registered check on the (clean) tree so that the committed evidence files come from the unchanged tree.
cd /verif
if [ -n "$(git -C /repo status --porcelain)" ]; then echo "REFUSING: /repo working tree is dirty"; exit 2; fi
rc=0
for cfg in checks/*.json; do id=$(basename $cfg .json); out=$(bin/check $id 2>&1); r=$?; echo "$id exit=$r $(echo "$out" | tail -1 | cut -d: -f2- | cut -c1-90)"; [ $r -ne 0 ] && rc=1; done
python3-vt - <<'PY'
import json,jsonschema,glob
sch=json.load(open('/root/.vp/EVIDENCE.schema.json'))
for f in sorted(glob.glob('/verif/evidence/*.json')):
    e=json.load(open(f)); jsonschema.validate(e,sch)
    c=e['coverage']; assert c['obligations']==c['discharged'], (f,c['obligations'],c['discharged'])
jsonschema.validate(json.load(open('/verif/MANIFEST.json')), json.load(open('/root/.vp/MANIFEST.schema.json')))
print("evidence + manifest valid")
PY
exit $rc

#!/bin/bash
# usage: benign_sweep.sh <rename|swapif|padlines> [ids...]
# Applies a mechanical behaviour-preserving rewrite to every function under contract in /repo (gvc benign), checks that the
# tree still compiles, runs the checks (all, or the given ids), reports every check that no longer exits 0, and reverts.
set -u
cd /verif
if [ -n "$(git -C /repo status --porcelain)" ]; then echo "REFUSING: /repo working tree is dirty"; exit 2; fi
kind=$1; shift
export GOFLAGS=-mod=mod GOPROXY=off GOSUMDB=off GOTOOLCHAIN=local
mkdir -p /tmp/gm; cp /repo/go.mod /repo/go.sum /tmp/gm/
bin/gvc benign $kind || exit 2
(cd /repo && go build -modfile=/tmp/gm/go.mod ./... 2>&1 | head -5)
(cd /repo && go vet -modfile=/tmp/gm/go.mod -tags verif ./vm/... >/dev/null 2>&1)
ids=${@:-$(ls checks/C*.json | xargs -n1 basename | sed 's/.json//')}
FAIL=0
for id in $ids; do
  out=$(bin/check $id 2>&1); rc=$?
  if [ $rc -ne 0 ]; then echo "FALSE-ALARM $id under benign $kind (exit $rc)"; echo "$out" | grep -v "^KNOWN" | grep "UNDECIDED\|VIOLATION" | head -8; FAIL=1; else echo "ok   $id"; fi
done
git -C /repo checkout -- .
exit $FAIL

#!/bin/bash
# usage: try_patch.sh <patch> <check-id>...   applies a patch to /repo, runs the checks, reverts. Refuses a dirty tree.
set -u
P=$1; shift
if [ -n "$(git -C /repo status --porcelain)" ]; then echo "REFUSING: /repo working tree is dirty (commit hook changes first)"; exit 2; fi
git -C /repo apply "$P" || exit 2
for id in "$@"; do /verif/bin/check $id | grep -v "^KNOWN" | tail -6; done
git -C /repo checkout -- . ; git -C /repo status --short

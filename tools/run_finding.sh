#!/bin/bash
# usage: run_finding.sh <test-file-under-/verif/findings> <pkg-dir> <TestName>
set -u
F=/verif/findings/$1; PKG=$2; T=$3
D=$(mktemp -d); cp /repo/go.mod /repo/go.sum $D/
echo "{\"Replace\": {\"/repo/$PKG/zz_gvc_finding_test.go\": \"$F\"}}" > $D/ov.json
cd /repo && GOFLAGS="-mod=mod -modfile=$D/go.mod" GOPROXY=off GOSUMDB=off GOTOOLCHAIN=local go test -overlay $D/ov.json -vet=off -count=1 -timeout 120s -run "$T\$" ./$PKG 2>&1 | grep -v "^t=\|^goroutine\|^\s" | head -${4:-12}
rm -rf $D

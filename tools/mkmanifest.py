#!/usr/bin/env python3
"""Generates /verif/MANIFEST.json from tools/manifest_src.json (claimed checks) + properties.jsonl."""
import json, os, subprocess
here = os.path.dirname(os.path.dirname(os.path.abspath(__file__)))
src = json.load(open(os.path.join(here, "tools", "manifest_src.json")))
props = [json.loads(l) for l in open(os.path.join(here, "properties.jsonl"))]
hooks = subprocess.run(["git", "-C", "/repo", "log", "--format=%H", "--grep=^verif hook"], capture_output=True, text=True).stdout.split()
checks, na = [], []
for p in props:
    pid = p["id"]
    c = src["checks"].get(pid)
    if c is None:
        na.append({"property_id": pid, "reason": src["not_applicable"].get(pid, "contract-based deductive verification is applicable (DESIGN.md section 5) but the contracts are not written yet")})
        continue
    checks.append({
        "property_id": pid,
        "quick_cmd": f"bin/check {pid} --tier quick",
        "thorough_cmd": f"bin/check {pid} --tier thorough",
        "evidence_file": f"/verif/evidence/{pid}.json",
        "replay_cmd_template": "bin/check --replay {path}",
        "engine": "gvc",
        "level_claimed": {"category": "proof", "text": c["text"], "design_ref": c.get("design_ref", "DESIGN.md section 5, " + pid)},
        "level_note": c["note"],
        "technique": c.get("technique", "contract-based deductive verification: weakest-precondition style VCs generated from go/ssa of the real functions, contracts in build-tag-guarded comment files, discharged by z3/cvc5"),
    })
m = {
    "version": 1,
    "setup_cmd": "cd /verif/engine && GOFLAGS=-mod=vendor GOPROXY=off GOSUMDB=off GOTOOLCHAIN=local go build -o /verif/bin/gvc . && cd /repo && mkdir -p /tmp/gvc-setup && cp go.mod go.sum /tmp/gvc-setup/ && GOFLAGS='-mod=mod -modfile=/tmp/gvc-setup/go.mod' GOPROXY=off GOSUMDB=off GOTOOLCHAIN=local go build -tags verif ./... ; rm -rf /tmp/gvc-setup",
    "hooks": {
        "guard": "verif",
        "enable": "contracts live in comment-only files <pkg>/zz_verif_contracts.go with //go:build verif; gvc loads /repo with -tags=verif and reads the //@ lines. No executable code is added.",
        "baseline_off_cmd": "cd /repo && go test -mod=mod -vet=off -count=1 -timeout 25m ./...",
        "source_commits": hooks,
        "add_only": True,
    },
    "engines": [{"name": "gvc", "path": "/verif/engine", "serves_properties": [c["property_id"] for c in checks],
                 "kind_free_text": "verification-condition generator over go/ssa (x/tools v0.29.0) with an SMT portfolio (z3 5.1.0, z3 4.8.12, cvc5 1.0.3); counterexamples replayed on the real code via go test -overlay"}],
    "checks": checks,
    "not_applicable": na,
    "notes": src.get("notes", ""),
}
json.dump(m, open(os.path.join(here, "MANIFEST.json"), "w"), indent=1)
print("MANIFEST.json:", len(checks), "checks,", len(na), "not applicable")
